package main

// engine "cut" (C16): well-formed expressions cut after every token and extended by every closer.
// The expectation is computed by an independent token-level well-formedness checker (the grammar
// of the property), not by the reader under test.  Requests are `read` requests for the Lean model.

import (
	"encoding/hex"
	"strconv"
	"strings"

	"github.com/jig/lisp/reader"
)

type cutTok struct {
	text string
	kind string // open:<closer>, close:<c>, macro, macro2 (^), atom, key (string/keyword atom)
}

// genWF emits the tokens of one well-formed expression
func genWF(r *rng, depth int, out *[]cutTok) {
	atom := func() {
		a := r.pick([]string{"a", "foo", "1", "-7", "nil", "true", ":k", "\"s\"", "\"(\"", "\")]}\"", "\"a\\\"b\"", "¬raw¬", "¬)¬", "¬a¬¬(b¬", "x-1", "+", "&", "λ", "$x", "$tmp", "\"¬\"", "\"a¬(\"", "\"¬¬¬\""})
		k := "atom"
		if a[0] == '"' || a[0] == ':' || strings.HasPrefix(a, "¬") {
			k = "key"
		}
		*out = append(*out, cutTok{a, k})
	}
	if depth <= 0 || r.chance(1, 3) {
		atom()
		return
	}
	switch r.intn(10) {
	case 0, 1, 2, 3:
		*out = append(*out, cutTok{"(", "open:)"})
		for i, n := 0, r.intn(4); i < n; i++ {
			genWF(r, depth-1, out)
		}
		*out = append(*out, cutTok{")", "close"})
	case 4, 5:
		*out = append(*out, cutTok{"[", "open:]"})
		for i, n := 0, r.intn(4); i < n; i++ {
			genWF(r, depth-1, out)
		}
		*out = append(*out, cutTok{"]", "close"})
	case 6:
		*out = append(*out, cutTok{"{", "open:}"})
		for i, n := 0, r.intn(3); i < n; i++ {
			*out = append(*out, cutTok{r.pick([]string{":a", ":b", "\"k\"", "\"}\"", ":c"}), "key"})
			genWF(r, depth-1, out)
		}
		*out = append(*out, cutTok{"}", "close"})
	case 7:
		*out = append(*out, cutTok{"#{", "set:}"})
		for i, n := 0, r.intn(3); i < n; i++ {
			*out = append(*out, cutTok{r.pick([]string{":a", ":b", "\"k\"", "\"#{\""}), "key"})
		}
		*out = append(*out, cutTok{"}", "close"})
	case 8:
		*out = append(*out, cutTok{r.pick([]string{"'", "`", "~", "~@", "@"}), "macro"})
		genWF(r, depth-1, out)
	default:
		*out = append(*out, cutTok{"^", "macro2"})
		genWF(r, depth-1, out)
		genWF(r, depth-1, out)
	}
}

// wfState is the independent grammar checker: it consumes tokens and answers
//
//	"complete"            exactly one expression
//	"incomplete:<closer>" a proper prefix that closing brackets alone can complete (innermost closer)
//	"dangling"            a prefix that closing brackets alone cannot complete (pending reader macro, odd map)
//	"surplus" / "two"     malformed: unmatched closer / more than one expression
type frame struct {
	closer  string
	isSet   bool
	seen    map[string]bool
	isMap   bool
	n       int // complete children
	pending int // forms still owed to reader macros inside this frame
}

func wfCheck(toks []cutTok) string {
	stack := []frame{{closer: ""}}
	done := false
	// content the grammar of the property says nothing about (mutated texts only): a set member or a map key
	// that is not a string / keyword, a repeated set member — the reader may reject those on their own account
	nospec := false
	var curTok *cutTok
	completeForm := func() {
		if top := &stack[len(stack)-1]; top.pending == 0 {
			isKey := curTok != nil && curTok.kind == "key"
			if top.isSet {
				if !isKey || top.seen[curTok.text] {
					nospec = true
				} else {
					top.seen[curTok.text] = true
				}
			}
			if top.isMap && top.n%2 == 0 && !isKey {
				nospec = true
			}
		} else if top.isSet || (top.isMap && top.n%2 == 0) {
			nospec = true // a reader-macro form as set member / map key
		}
		// a form has just been completed in the top frame
		for {
			top := &stack[len(stack)-1]
			if top.pending > 0 {
				top.pending--
				if top.pending > 0 {
					return
				}
				// the macro form itself is now complete: counts as one child
			}
			top.n++
			return
		}
	}
	for ti := range toks {
		t := toks[ti]
		if done {
			return "two"
		}
		top := &stack[len(stack)-1]
		curTok = &toks[ti]
		switch {
		case strings.HasPrefix(t.kind, "open:") || strings.HasPrefix(t.kind, "set:"):
			stack = append(stack, frame{closer: t.kind[strings.Index(t.kind, ":")+1:], isMap: t.text == "{",
				isSet: strings.HasPrefix(t.kind, "set:"), seen: map[string]bool{}})
		case t.kind == "close":
			if len(stack) == 1 || top.closer != t.text {
				return "surplus"
			}
			if top.pending > 0 || (top.isMap && top.n%2 == 1) {
				return "malformed"
			}
			stack = stack[:len(stack)-1]
			curTok = nil // the completed child is a collection
			completeForm()
		case t.kind == "macro":
			// the macro form completes when its operand does: 1 form owed
			if top.pending == 0 {
				top.pending = 1
			}
			// nested macro: still one form owed in total (the inner macro's operand completes both)
		case t.kind == "macro2":
			if top.pending == 0 {
				top.pending = 2
			} else {
				top.pending++
			}
		default:
			completeForm()
		}
		if len(stack) == 1 && stack[0].n == 1 && stack[0].pending == 0 {
			done = true
		}
	}
	if nospec {
		return "nospec"
	}
	if done {
		return "complete"
	}
	if len(stack) == 1 {
		return "dangling" // only reader macros so far, or nothing
	}
	// closing brackets alone complete the text iff the innermost open collection owes nothing (no reader macro waiting
	// for its operand, no map key waiting for its value) and, in every enclosing frame, the collection that is still open
	// is the LAST form owed (`^{:doc "x"} [1 2` yes; `^[1 2` no: the form the metadata belongs to is still missing)
	for i, f := range stack {
		if i == len(stack)-1 {
			if f.pending > 0 || (f.isMap && f.n%2 == 1) {
				return "dangling"
			}
			continue
		}
		if f.pending > 1 {
			return "dangling"
		}
		if f.pending == 0 && (f.isSet || (f.isMap && f.n%2 == 0)) {
			return "nospec" // an open collection in set-member / map-key position
		}
	}
	return "incomplete:" + stack[len(stack)-1].closer
}

func renderToks(r *rng, toks []cutTok) string {
	var b strings.Builder
	for i, t := range toks {
		if i > 0 {
			switch r.intn(8) {
			case 0:
				b.WriteString("\n")
			case 1:
				b.WriteString([]string{" ; c )(\n", " ; ¬ ( \"\n"}[r.intn(2)])
			case 2:
				b.WriteString("  ")
			default:
				b.WriteString(" ")
			}
		}
		b.WriteString(t.text)
	}
	if r.chance(1, 4) {
		b.WriteString(r.pick([]string{" ", "\n", " ; (", "\n;x\n"}))
	}
	return b.String()
}

type cutEngine struct{}

func init() { register("cut", &cutEngine{}) }

func (e *cutEngine) leanName() string { return "read" }

// a first line that names the module is a COMMENT line, whatever follows the name on it
var cutHeaders = []string{";; $MODULE a.lisp\n", ";; $MODULE notes (draft\n", ";; $MODULE my file (1).lisp\n", ";; $MODULE a [b\n", ";; $MODULE x )\n", ";; $MODULE m {:a\n",
	";; $MODULE m \"q\n", ";; $MODULE m ] } )\n", ";; $MODULE  two  blanks (\n", ";; $MODULE m\t(tab\n", ";; $MODULE m ¬raw\n", ";; $MODULE m #{\n", ";; $MODULE m 'q `(~x\n", ";; $MODULE m ^{:a 1}\n",
	";; $MODULE m (\r\n"}

func (e *cutEngine) generate(r *rng, n int, tier string, emit0 func(string)) {
	emit := func(p string) {
		emit0(p)
		if r.chance(1, 10) { // the same text below a module line
			if i := strings.Index(p, " x"); i >= 0 {
				if j := strings.Index(p, " | "); j > i {
					emit0(p[:i+2] + hex.EncodeToString([]byte(r.pick(cutHeaders))) + p[i+2:])
				}
			}
		}
	}
	closers := []cutTok{{")", "close"}, {"]", "close"}, {"}", "close"}}
	for i := 0; i < n; i++ {
		var toks []cutTok
		genWF(r, 4, &toks)
		if len(toks) > 24 {
			continue
		}
		// every cut
		for k := 1; k <= len(toks); k++ {
			pre := toks[:k]
			emit("e0,p0 x" + hex.EncodeToString([]byte(renderToks(r, pre))) + " | " + wfCheck(pre))
		}
		// extended by every closer, and by a second expression
		for _, c := range closers {
			ext := append(append([]cutTok{}, toks...), c)
			emit("e0,p0 x" + hex.EncodeToString([]byte(renderToks(r, ext))) + " | " + wfCheck(ext))
		}
		// mutations (every third expression): each closer inserted at every position, each token deleted — a
		// closer right after a reader macro, in the middle of a map, between two expressions …
		if i%3 == 0 && len(toks) <= 12 {
			for k := 0; k <= len(toks); k++ {
				for _, c := range closers {
					mut := append(append(append([]cutTok{}, toks[:k]...), c), toks[k:]...)
					emit("e0,p0 x" + hex.EncodeToString([]byte(renderToks(r, mut))) + " | " + wfCheck(mut))
				}
				if k < len(toks) && len(toks) > 1 {
					mut := append(append([]cutTok{}, toks[:k]...), toks[k+1:]...)
					emit("e0,p0 x" + hex.EncodeToString([]byte(renderToks(r, mut))) + " | " + wfCheck(mut))
				}
			}
		}
		var second []cutTok
		genWF(r, 1, &second)
		ext := append(append([]cutTok{}, toks...), second...)
		emit("e0,p0 x" + hex.EncodeToString([]byte(renderToks(r, ext))) + " | " + wfCheck(ext))
		// a complete expression followed by a second one that is left OPEN: more than one expression, not "incomplete"
		var open2 []cutTok
		genWF(r, 3, &open2)
		for k := 1; k < len(open2) && k <= 6; k++ {
			ext2 := append(append([]cutTok{}, toks...), open2[:k]...)
			emit("e0,p0 x" + hex.EncodeToString([]byte(renderToks(r, ext2))) + " | " + wfCheck(ext2))
		}
	}
}

// mbText: the text and the grammar checker's verdict of a megabyte case
func mbText(kind string, n int) (string, string) {
	comments := func() string { return strings.Repeat("; a comment line with ( and \" inside\n", n/40+1) }
	switch kind {
	case "flat":
		return "(list " + strings.Repeat("1234567 ", n/8+1) + ")", "complete"
	case "comment-closer":
		return "(def a 1)\n" + comments() + ")", "surplus"
	case "comment-second":
		return "(def a 1)\n" + comments() + "(def b 2)", "two"
	case "comment-open":
		return "(def a 1\n" + comments(), "incomplete:)"
	case "string":
		return "(f \"" + strings.Repeat("s", n) + "\")", "complete"
	case "raw":
		return "[¬" + strings.Repeat("raw ( ", n/6+1) + "¬ 1]", "complete"
	case "wrong-closer":
		return "(do " + strings.Repeat("1 ", n/2+1) + "]", "malformed"
	}
	return "", ""
}

func (e *cutBigEngine) run(payload string) string {
	if f := strings.Fields(payload); len(f) == 3 && f[0] == "mb" {
		n, err := strconv.Atoi(f[2])
		text, verdict := mbText(f[1], n)
		if err != nil || n < 1 || n > 1<<27 || verdict == "" {
			return "bad-case"
		}
		return e.cutEngine.runText(text, verdict)
	}
	return e.cutEngine.run(payload)
}

func (e *cutEngine) run(payload string) string {
	parts := strings.Split(payload, " | ")
	head := strings.Fields(parts[0])
	bs, err := hex.DecodeString(strings.TrimPrefix(head[1], "x"))
	if err != nil || len(parts) != 2 {
		return "bad-case"
	}
	return e.runText(string(bs), parts[1])
}

func (e *cutEngine) runText(text, expect string) string {
	v, rerr := reader.Read_str(text, nil, nil)
	obs := renderReadResult(v, rerr)
	if len(obs) > 4000 {
		obs = obs[:4000] + "…"
	}
	viol := ""
	switch {
	case expect == "complete":
		if rerr != nil {
			viol = "a complete expression was rejected: " + obs
		}
	case strings.HasPrefix(expect, "incomplete:"):
		want := "err eof:" + expect[len("incomplete:"):] + " ml=T"
		if obs != want {
			viol = "incomplete input not reported as '" + want + "' but as '" + obs + "'"
		}
	case expect == "surplus" || expect == "two" || expect == "malformed":
		if rerr == nil {
			viol = "malformed input (" + expect + ") silently accepted"
		} else if strings.HasPrefix(obs, "err eof:") {
			viol = "malformed input (" + expect + ") reported as incomplete: " + obs
		}
	}
	if viol != "" {
		return obs + "\t!" + viol
	}
	return obs
}

func (e *cutEngine) classify(payload, obs string) string {
	parts := strings.Split(payload, " | ")
	return strings.SplitN(parts[len(parts)-1], ":", 2)[0] + "→" + strings.SplitN(strings.Join(strings.Fields(obs + " ? ?")[:2], " "), ":", 2)[0]
}

// engine "cutbig" (C16): the same oracle on BIG texts — a first expression of exactly N tokens around every power of two,
// incomplete texts of tens of kilobytes with each kind of bracket innermost.  Harness-side oracle only (the independent
// grammar checker): the reader model is exact but slow on 70 KiB texts, and what is at stake here is a size threshold
// in the CODE.
type cutBigEngine struct{ cutEngine }

func init() { register("cutbig", &cutBigEngine{}) }

func (e *cutBigEngine) leanName() string { return "nomodel" }

func (e *cutBigEngine) generate(r *rng, n int, tier string, emit func(string)) {
	emitToks := func(toks []cutTok) {
		emit("e0,p0 x" + hex.EncodeToString([]byte(renderToks(r, toks))) + " | " + wfCheck(toks))
	}
	// BIG texts: a first expression of exactly N tokens (around every power of two a chunked tokenizer or a buffer might
	// use) followed by a surplus closer / a second expression / nothing
	for _, N := range []int{255, 256, 257, 1023, 1024, 1025, 4095, 4096, 4097, 8191, 8192, 8193, 12288, 16384, 16385} {
		toks := []cutTok{{"(", "open:)"}, {"do", "atom"}}
		for len(toks) < N-1 {
			toks = append(toks, cutTok{"1", "atom"})
		}
		toks = append(toks, cutTok{")", "close"})
		emitToks(toks)
		for _, tail := range [][]cutTok{{{")", "close"}}, {{"]", "close"}}, {{"42", "atom"}}, {{"(", "open:)"}, {"x", "atom"}, {")", "close"}}, {{"(", "open:)"}, {"x", "atom"}}} {
			emitToks(append(append([]cutTok{}, toks...), tail...))
		}
	}
	// MEGABYTE texts (built by the run from the case's name): the decisive bracket lies beyond the first 1, 4, 16 MiB
	sizes := []int{1<<20 - 64, 1<<20 + 64, 1<<20 + 200000, 5 << 20}
	if tier == "thorough" {
		sizes = append(sizes, 1<<24+64, 40<<20)
	}
	for _, n := range sizes {
		for _, k := range []string{"flat", "comment-closer", "comment-second", "comment-open", "string", "wrong-closer", "raw"} {
			emit("mb " + k + " " + strconv.Itoa(n))
		}
	}
	// BIG incomplete texts (tens of kilobytes): the innermost open bracket is what the error names, whatever its kind
	for _, members := range []int{5000, 11000} {
		for _, inner := range []cutTok{{"#{", "set:}"}, {"[", "open:]"}, {"(", "open:)"}, {"{", "open:}"}} {
			for _, outer := range [][]cutTok{{}, {{"(", "open:)"}, {"def", "atom"}, {"allowed", "atom"}}, {{"[", "open:]"}, {":admins", "key"}}, {{"(", "open:)"}, {"f", "atom"}, {"{", "open:}"}, {":k", "key"}}} {
				toks := append(append([]cutTok{}, outer...), inner)
				for i := 0; i < members; i++ {
					toks = append(toks, cutTok{":m" + strconv.Itoa(i), "key"})
					if inner.text == "{" {
						toks = append(toks, cutTok{strconv.Itoa(i), "atom"})
					}
				}
				emitToks(toks)
			}
		}
	}
}

package main

// engine "eval": programs as ASTs evaluated by the real EVAL in a freshly loaded environment,
// observed through harness builtins (trace!, depth!), a poll-counting context, an optional scripted
// Stepper, and the final bindings of the names the program defines.

import (
	"math"
	"context"
	"errors"
	"fmt"
	"runtime"
	"strconv"
	"strings"
	"sync"
	"sync/atomic"
	"time"

	"github.com/jig/lisp"
	"github.com/jig/lisp/debuggertypes"
	"github.com/jig/lisp/env"
	"github.com/jig/lisp/lib/call"
	"github.com/jig/lisp/lib/concurrent/nsconcurrent"
	"github.com/jig/lisp/lib/core"
	"github.com/jig/lisp/lib/core/nscore"
	"github.com/jig/lisp/lib/coreextented"
	"github.com/jig/lisp/lib/coreextented/nscoreextended"

	. "github.com/jig/lisp/types"
)

// pollCtx: Done() is closed from the n-th call on (0-based); no deadline.
type pollCtx struct {
	mu       sync.Mutex
	calls    int
	cancelAt int // -1: never
	open     chan struct{}
	closed   chan struct{}
	deadline time.Time // zero = none
}

func newPollCtx(cancelAt int) *pollCtx {
	c := &pollCtx{cancelAt: cancelAt, open: make(chan struct{}), closed: make(chan struct{})}
	close(c.closed)
	return c
}
func (c *pollCtx) Deadline() (time.Time, bool) {
	if !c.deadline.IsZero() {
		return c.deadline, true
	}
	return time.Time{}, false
}
func (c *pollCtx) Done() <-chan struct{} {
	c.mu.Lock()
	defer c.mu.Unlock()
	n := c.calls
	c.calls++
	if c.cancelAt >= 0 && n >= c.cancelAt {
		return c.closed
	}
	return c.open
}
func (c *pollCtx) Err() error {
	c.mu.Lock()
	defer c.mu.Unlock()
	if c.cancelAt >= 0 && c.calls > c.cancelAt {
		return context.Canceled
	}
	return nil
}
func (c *pollCtx) Value(key interface{}) interface{} { return nil }

type evalCase struct {
	trace []MalType
	marks []int
	base  int
}

func evalFrames() int {
	pcs := make([]uintptr, 4096)
	n := runtime.Callers(1, pcs)
	frames := runtime.CallersFrames(pcs[:n])
	cnt := 0
	for {
		f, more := frames.Next()
		if f.Function == "github.com/jig/lisp.EVAL" {
			cnt++
		}
		if !more {
			break
		}
	}
	return cnt
}

// freshEnv loads the libraries the way an embedder does and adds the harness builtins.
// sentinel Go error planted by the harness builtins go-fail! / go-panic! (C03: errors.Is reachability)
var errSentinel = errors.New("verif sentinel error")

func freshEnv(ec *evalCase) (EnvType, error) {
	e := env.NewEnv()
	if err := nscore.Load(e); err != nil {
		return nil, err
	}
	if err := nsconcurrent.Load(e); err != nil {
		return nil, err
	}
	if err := nscoreextended.Load(e); err != nil {
		return nil, err
	}
	call.CallOverrideFN(e, "trace!", func(a MalType) (MalType, error) {
		ec.trace = append(ec.trace, a)
		return a, nil
	})
	call.CallOverrideFN(e, "depth!", func() (MalType, error) {
		ec.marks = append(ec.marks, evalFrames()-ec.base)
		return nil, nil
	})
	// RAW builtins, bound the kanaka/mal way (a types.Func set directly, not through lib/call): nothing recovers their
	// panics for them and nothing copies their argument slice
	e.Set(Symbol{Val: "raw-tuple"}, Func{Fn: func(_ context.Context, a []MalType) (MalType, error) { return List{Val: a}, nil }})
	e.Set(Symbol{Val: "raw-panic!"}, Func{Fn: func(_ context.Context, a []MalType) (MalType, error) {
		if len(a) == 0 {
			panic(fmt.Errorf("raw builtin panicked: %w", errSentinel))
		}
		panic(a[0])
	}})
	e.Set(Symbol{Val: "raw-nth"}, Func{Fn: func(_ context.Context, a []MalType) (MalType, error) {
		return []MalType{10, 20, 30}[a[0].(int)], nil // index / type-assertion panics are the point
	}})
	call.CallOverrideFN(e, "go-fail!", func() (MalType, error) { return nil, fmt.Errorf("builtin failed: %w", errSentinel) })
	call.CallOverrideFN(e, "go-panic!", func() (MalType, error) { panic(fmt.Errorf("builtin panicked: %w", errSentinel)) })
	// every other environment is followed by a second, unrelated one initialised AFTER it: an embedder may hold
	// several environments, and nothing one of them does (eval, load-file, registrations) may depend on which
	// environment of the process was initialised last
	if err := maybeDecoy(); err != nil {
		return nil, err
	}
	return e, nil
}

var freshEnvCount int64

func maybeDecoy() error {
	if atomic.AddInt64(&freshEnvCount, 1)%2 == 0 {
		decoy := env.NewEnv()
		if err := nscore.Load(decoy); err != nil {
			return err
		}
		if err := nscore.LoadInput(decoy); err != nil {
			return err
		}
		call.CallOverrideFN(decoy, "trace!", func(a MalType) (MalType, error) { return nil, fmt.Errorf("trace! of another environment") })
	}
	return nil
}

func renderErr(err error) string {
	if ev, ok := err.(interface{ ErrorValue() MalType }); ok {
		return "err lisp " + render(canonRuntime(ev.ErrorValue()))
	}
	return "err plain"
}

// canonRuntime: the text of Go run-time errors is not part of any property
func canonRuntime(v MalType) MalType { return v }

// canonString: the text of reflect's own panic messages is not part of any property
func canonString(s string) string {
	if strings.HasPrefix(s, "reflect: Call using") {
		return "reflect: Call using"
	}
	return s
}

var lastErrIsSentinel bool // whether the error of the last runProgram satisfied errors.Is(err, errSentinel)

var stepMu sync.Mutex // the Stepper and its flags are process-wide

// shared base environment for engines that run very many tiny cases (e=child): each case is
// evaluated in its own child scope of one loaded environment
var (
	sharedEnv  EnvType
	sharedCase *evalCase
)

func childEnv(ec *evalCase) (EnvType, error) {
	if sharedEnv == nil {
		holder := &evalCase{}
		sharedCase = holder
		e := env.NewEnv()
		if err := nscore.Load(e); err != nil {
			return nil, err
		}
		if err := nsconcurrent.Load(e); err != nil {
			return nil, err
		}
		if err := nscoreextended.Load(e); err != nil {
			return nil, err
		}
		call.CallOverrideFN(e, "trace!", func(a MalType) (MalType, error) {
			sharedCase.trace = append(sharedCase.trace, a)
			return a, nil
		})
		call.CallOverrideFN(e, "depth!", func() (MalType, error) {
			sharedCase.marks = append(sharedCase.marks, evalFrames()-sharedCase.base)
			return nil, nil
		})
		registerEmbedderShapes(e)
		sharedEnv = e
	}
	sharedCase = ec
	return env.NewSubordinateEnv(sharedEnv), nil
}

func runProgram(ast MalType, cancelAt int, script string, names []string) string {
	return runProgramIn(ast, cancelAt, script, names, false)
}

// deadlineMode is set by the engine's run for payloads carrying d=1
var deadlineMode bool

func runProgramIn(ast MalType, cancelAt int, script string, names []string, child bool) string {
	ec := &evalCase{}
	var e EnvType
	var err error
	if child {
		e, err = childEnv(ec)
	} else {
		e, err = freshEnv(ec)
	}
	if err != nil {
		return "setup-error " + oneLine(err.Error())
	}
	ctx := newPollCtx(cancelAt)
	if deadlineMode && cancelAt < 0 {
		// a caller's context that carries a (far) deadline: `try` then derives a budget context for its body; nothing
		// the program computes may depend on that
		// … however far away: two hours, five years, twelve years, "never" (the saturated no-timeout idiom)
		far := []time.Duration{2 * time.Hour, 5 * 365 * 24 * time.Hour, 12 * 365 * 24 * time.Hour, time.Duration(math.MaxInt64)}
		ctx.deadline = time.Now().Add(far[len(render(ast))%len(far)])
	}
	var calls []string
	if script != "-" {
		stepMu.Lock()
		defer stepMu.Unlock()
		lisp.ResetStepperFlags()
		i := 0
		var cbMu sync.Mutex // futures started by the program call the hook from their own goroutines
		lisp.Stepper = func(a MalType, ns EnvType) debuggertypes.Command {
			cbMu.Lock()
			defer cbMu.Unlock()
			calls = append(calls, render(a))
			if i >= len(script) {
				return debuggertypes.NoOp
			}
			c := script[i]
			i++
			switch c {
			case 'x':
				return debuggertypes.Next
			case 'i':
				return debuggertypes.In
			case 'o':
				return debuggertypes.Out
			}
			return debuggertypes.NoOp
		}
		defer func() { lisp.Stepper = nil }()
	}
	ast = viaReader(ast, e)
	ec.base = evalFrames()
	res, err := lisp.EVAL(ctx, ast, e)
	lisp.Stepper = nil
	var b strings.Builder
	if err != nil {
		b.WriteString(renderErr(err))
		lastErrIsSentinel = errors.Is(err, errSentinel)
	} else {
		lastErrIsSentinel = false
		b.WriteString("ok " + render(res))
	}
	b.WriteString(" trace=[")
	for i, t := range ec.trace {
		if i > 0 {
			b.WriteString(" ; ")
		}
		b.WriteString(render(t))
	}
	b.WriteString("] marks=" + fmt.Sprint(ec.marks))
	if ctx.deadline.IsZero() {
		b.WriteString(" ticks=" + strconv.Itoa(ctx.calls))
	} else {
		b.WriteString(" ticks=-") // contexts derived from this one poll it as well: the count means nothing here
	}
	b.WriteString(" defs=[")
	for i, n := range names {
		if i > 0 {
			b.WriteString(" ; ")
		}
		v, gerr := e.Get(Symbol{Val: n})
		if gerr != nil {
			b.WriteString(n + "=?")
		} else {
			b.WriteString(n + "=" + render(v))
		}
	}
	b.WriteString("]")
	if script != "-" {
		b.WriteString(" calls=[" + strings.Join(calls, " ; ") + "]")
	}
	return b.String()
}

// initLine: the library sources the Lean model loads into its root scope (always /repo's current text)
func initPayload() string {
	var parts []string
	for _, src := range []string{core.HeaderBasic(), coreextented.HeaderCoreExtended()} {
		ast, err := lisp.READ(src, nil, nil)
		if err != nil {
			parts = append(parts, "N")
			continue
		}
		parts = append(parts, render(ast))
	}
	return strings.Join(parts, " | ")
}

// request payload: c=<n|-> s=<script|-> n=<names,|-> [e=child] | <ast>
func evalPayloadChild(ast MalType) string {
	return "c=- s=- n=- e=child | " + render(ast)
}

// evalPayloadD: the program runs under a context with a far deadline
func evalPayloadD(names []string, ast MalType) string {
	ns := "-"
	if len(names) > 0 {
		ns = strings.Join(names, ",")
	}
	return "c=- s=- n=" + ns + " d=1 | " + render(ast)
}

func evalPayloadChildC(ast MalType, cancelAt int) string {
	return "c=" + strconv.Itoa(cancelAt) + " s=- n=- e=child | " + render(ast)
}

func evalPayload(cancelAt int, script string, names []string, ast MalType) string {
	c := "-"
	if cancelAt >= 0 {
		c = strconv.Itoa(cancelAt)
	}
	ns := "-"
	if len(names) > 0 {
		ns = strings.Join(names, ",")
	}
	return "c=" + c + " s=" + script + " n=" + ns + " | " + render(ast)
}

func parseEvalPayload(payload string) (cancelAt int, script string, names []string, ast MalType, err error) {
	parts := strings.SplitN(payload, " | ", 2)
	if len(parts) != 2 {
		return 0, "", nil, nil, fmt.Errorf("bad payload")
	}
	cancelAt = -1
	script = "-"
	for _, f := range strings.Fields(parts[0]) {
		switch {
		case strings.HasPrefix(f, "c="):
			if f[2:] != "-" {
				cancelAt, _ = strconv.Atoi(f[2:])
			}
		case strings.HasPrefix(f, "s="):
			script = f[2:]
		case strings.HasPrefix(f, "n="):
			if f[2:] != "-" {
				names = strings.Split(f[2:], ",")
			}
		}
	}
	ast, err = parse(parts[1])
	return
}

type evalEngine struct {
	gen func(r *rng, n int, tier string, emit func(string))
}

func (e *evalEngine) leanName() string { return "eval" }

func (e *evalEngine) preamble() []string { return []string{"init\t" + initPayload()} }

func (e *evalEngine) generate(r *rng, n int, tier string, emit func(string)) { e.gen(r, n, tier, emit) }

func (e *evalEngine) run(payload string) string {
	cancelAt, script, names, ast, err := parseEvalPayload(payload)
	if err != nil {
		return "bad-case"
	}
	deadlineMode = strings.Contains(" "+strings.SplitN(payload, " | ", 2)[0]+" ", " d=1 ")
	defer func() { deadlineMode = false }()
	return runProgramIn(ast, cancelAt, script, names, strings.Contains(strings.SplitN(payload, " | ", 2)[0], "e=child"))
}

func (e *evalEngine) classify(payload, obs string) string {
	f := strings.Fields(obs + " ? ?")
	if f[0] == "err" {
		return "err/" + f[1]
	}
	return f[0]
}

// viaReader: for every other case (chosen by a hash of the program, so a replay takes the same route) the
// program is printed and read back by the REAL reader before it is evaluated, so that the AST handed to EVAL
// is built by the code's own constructors (NewHashMap, NewSet, read_list with cursors, …) and not by the
// harness' struct literals.  Programs whose text does not read back to the same canonical term (strings the
// printer/reader pair does not round-trip — known findings of C06 —, placeholder-like symbols) keep the
// harness-built AST.
func viaReader(ast MalType, e EnvType) MalType {
	canon := render(ast)
	h := uint32(2166136261)
	for i := 0; i < len(canon); i++ {
		h = (h ^ uint32(canon[i])) * 16777619
	}
	if h&1 == 0 {
		return ast
	}
	var out MalType
	func() {
		defer func() {
			if recover() != nil {
				out = nil
			}
		}()
		if l, isList := ast.(List); isList && h&2 != 0 && len(l.Val) >= 3 {
			if hd, isSym := l.Val[0].(Symbol); isSym && hd.Val == "do" {
				// a program assembled from SEVERAL sources: every top-level form is read on its own under a module
				// name of its own (a library file, a script, …); nothing a program computes — nor the host stack it
				// needs — may depend on which source a function or a call form came from
				forms := []MalType{l.Val[0]}
				for i, f := range l.Val[1:] {
					fi, err := lisp.READ(lisp.PRINT(f), NewCursorFile(fmt.Sprintf("src%d.lisp", i)), e)
					if err != nil {
						return
					}
					forms = append(forms, fi)
				}
				if a2 := (List{Val: forms}); render(a2) == canon {
					out = a2
				}
				return
			}
		}
		text := lisp.PRINT(ast)
		a2, err := lisp.READ(text, nil, e)
		if err == nil && render(a2) == canon {
			out = a2
		}
	}()
	if out == nil {
		return ast
	}
	return out
}

// registerEmbedderShapes: what an embedder binds through lib/call — every combination of (context or not) × (0, 1, 2
// results) × (fixed or variadic), and procedures whose OWN body panics (a nil-map write, an index out of range, a nil
// dereference).  Wrong counts, wrong types and those bugs are all ordinary lisp errors for the calling program.
func registerEmbedderShapes(e EnvType) {
	var nilMap map[string]int
	var nilPtr *evalCase
	call.CallOverrideFN(e, "emb-c0", func(_ context.Context, s string) {})
	call.CallOverrideFN(e, "emb-c1", func(_ context.Context, s string) error { return nil })
	call.CallOverrideFN(e, "emb-c2", func(_ context.Context, s string) (MalType, error) { return s, nil })
	call.CallOverrideFN(e, "emb-n0", func(s string) {})
	call.CallOverrideFN(e, "emb-n1", func(s string) error { return nil })
	call.CallOverrideFN(e, "emb-n2", func(s string) (MalType, error) { return s, nil })
	call.CallOverrideFN(e, "emb-cv0", func(_ context.Context, xs ...MalType) {})
	call.CallOverrideFN(e, "emb-cv1", func(_ context.Context, i int, xs ...string) error { return nil })
	call.CallOverrideFN(e, "emb-c00", func(_ context.Context) {})
	call.CallOverrideFN(e, "emb-bug-c0", func(_ context.Context, k string) { nilMap[k] = 1 })
	call.CallOverrideFN(e, "emb-bug-c1", func(_ context.Context, i int) error { _ = []int{1}[i+5]; return nil })
	call.CallOverrideFN(e, "emb-bug-n0", func(k string) { nilMap[k] = 1 })
	call.CallOverrideFN(e, "emb-bug-c2", func(_ context.Context) (MalType, error) { return nilPtr.base, nil })
}

package main

// further deterministic witnesses of engine "conc" (added after seeded change C10-2)

import (
	"context"
	"strings"
	"time"

	"github.com/jig/lisp/lib/call"
	. "github.com/jig/lisp/types"
)

func init() {
	// C10: "every deref … blocks until the outcome is available OR the caller's context ends" — also after
	// future-cancel on a future whose body does not return promptly on cancellation
	addWitness("deref-after-cancel-honours-ctx", "f", func(iters int) string {
		w, err := newConcWorld()
		if err != nil {
			return "setup-error"
		}
		release := make(chan struct{})
		defer close(release)
		// a host function that ignores its context and returns only when released
		call.CallOverrideFN(w.env, "stall!", func() (MalType, error) {
			select {
			case <-release:
			case <-time.After(20 * time.Second):
			}
			return 42, nil
		})
		bg := context.Background()
		if _, err := w.eval(bg, "(def f (future (stall!)))"); err != nil {
			return "setup-error"
		}
		deref := func() (string, time.Duration) {
			ctx, cancel := context.WithTimeout(bg, 100*time.Millisecond)
			defer cancel()
			t0 := time.Now()
			done := make(chan string, 1)
			go func() {
				_, err := w.eval(ctx, "(deref f)")
				if err != nil {
					done <- "err"
				} else {
					done <- "value"
				}
			}()
			select {
			case r := <-done:
				return r, time.Since(t0)
			case <-time.After(3 * time.Second):
				return "BLOCKED", time.Since(t0)
			}
		}
		if r, _ := deref(); r != "err" {
			return "deref-before-cancel=" + r + "\t!deref of a running future did not end with the caller's context"
		}
		if v, err := w.eval(bg, "(future-cancel f)"); err != nil || v != true {
			return "cancel-failed"
		}
		if v, _ := w.eval(bg, "(list (future-cancelled? f) (future-done? f))"); !strings.Contains(render(v), "T T") {
			return "flags=" + render(v) + "\t!future-cancel on a running future did not set cancelled?/done?"
		}
		if r, _ := deref(); r != "err" {
			return "deref-after-cancel=" + r + "\t!deref of a cancelled, still running future ignores the caller's context (blocked beyond its deadline)"
		}
		return "ok"
	})
}

package main

// engine "steplong" (C18): programs that run LONG (thousands of loop iterations, deep but host-stack-safe recursion)
// give the same result with a stepper installed (every command script) as without.  Harness-side oracle only: the
// callback log of such a run is megabytes, the Lean driver answers "-".

import (
	"fmt"
	"strings"

	"github.com/jig/lisp"
	. "github.com/jig/lisp/types"
)

type stepLongEngine struct{}

func init() { register("steplong", &stepLongEngine{}) }

func (e *stepLongEngine) leanName() string { return "nomodel" }

var stepLongPrograms = []string{
	"(do (def sum (fn [n acc] (if (< n 1) acc (sum (- n 1) (+ acc n))))) (sum %d 0))",
	"(do (def cnt (fn [n acc] (cond (< n 1) acc :else (cnt (- n 1) (+ acc 1))))) (cnt %d 0))",
	"(do (def deep (fn [n] (if (< n 1) 0 (+ 1 (deep (- n 1)))))) (deep %d))",
	"(do (def a (atom 0)) (def lp (fn [n] (if (< n 1) @a (do (swap! a inc) (lp (- n 1)))))) (lp %d))",
}

func (e *stepLongEngine) generate(r *rng, n int, tier string, emit func(string)) {
	sizes := []int{2500, 5000}
	if tier == "thorough" {
		sizes = []int{2500, 5000, 12000}
	}
	for p := range stepLongPrograms {
		for _, sz := range sizes {
			if p == 2 && sz > 2500 {
				sz = 2500 // non-tail recursion: stay well inside the host stack
			}
			for _, script := range []string{"n", "i", "xn", "inonxo"} {
				emit(fmt.Sprintf("prog=%d n=%d s=%s", p, sz, script))
			}
		}
	}
}

func (e *stepLongEngine) run(payload string) string {
	var p, n int
	var script string
	if _, err := fmt.Sscanf(payload, "prog=%d n=%d s=%s", &p, &n, &script); err != nil || p < 0 || p >= len(stepLongPrograms) {
		return "bad-case"
	}
	ast, err := parseText(fmt.Sprintf(stepLongPrograms[p], n))
	if err != nil {
		return "bad-case"
	}
	plain := resultPart(runProgram(ast, -1, "-", nil))
	stepped := resultPart(runProgram(ast, -1, script, nil))
	if plain != stepped {
		return "differs\t!with a stepper installed (script " + script + ") the program computes " + stepped[:min(len(stepped), 200)] + " , without " + plain[:min(len(plain), 200)]
	}
	if !strings.HasPrefix(plain, "ok") {
		return "setup-error " + plain[:min(len(plain), 100)]
	}
	return "ok"
}

func (e *stepLongEngine) classify(payload, obs string) string {
	return strings.Fields(payload + " ?")[0] + "/" + strings.SplitN(obs, "\t", 2)[0]
}

// parseText reads lisp source with the real reader (no positions needed by the caller)
func parseText(src string) (MalType, error) { return lisp.READ(src, nil, nil) }

package main

// engine "steplong" (C18): programs that run LONG (thousands of loop iterations, deep but host-stack-safe recursion)
// give the same result with a stepper installed (every command script) as without.  Harness-side oracle only: the
// callback log of such a run is megabytes, the Lean driver answers "-".

import (
	"fmt"
	"strings"

	"github.com/jig/lisp"
	. "github.com/jig/lisp/types"
)

type stepLongEngine struct{}

func init() { register("steplong", &stepLongEngine{}) }

func (e *stepLongEngine) leanName() string { return "nomodel" }

// programs whose futures INTERACT with their creator (the creator looks at shared state while the future still runs,
// cancels it, polls it): a stepper may not serialise them.  %d is ignored (kept for the common driver).
var stepFuturePrograms = []string{
	"(do (def n %d) (def p (atom 0)) (def f (future (do (sleep 80) (reset! p 1) :done))) (def seen (deref p)) [(deref f) seen (deref p)])",
	"(do (def n %d) (def f (future (do (sleep 300) 1))) [(future-cancel f) (future-cancelled? f)])",
	"(do (def n %d) (def f (future (do (sleep 150) :late))) [(future-done? f) (deref f) (future-done? f)])",
}

// programs in which a RAW builtin (bound without lib/call: nothing recovers its panics) panics below a builtin callback:
// whatever the stepper answers, the program computes what it computes without one.  %d is ignored.
var stepRawPrograms = []string{
	`(do (def n %d) (try (map (fn [i] (raw-nth i)) [1 7]) (catch e (str "caught: " e))))`,
	`(do (def n %d) (try (apply (fn [i] (raw-nth i)) [7]) (catch e (str "caught: " e))))`,
	`(do (def n %d) (def a (atom 0)) (try (swap! a (fn [x] (raw-nth 9))) (catch e (str "caught: " e))))`,
	`(do (def n %d) (try (list 1 (raw-nth 1) (raw-panic! {:v 1})) (catch e e)))`,
}

var stepLongPrograms = []string{
	"(do (def sum (fn [n acc] (if (< n 1) acc (sum (- n 1) (+ acc n))))) (sum %d 0))",
	"(do (def cnt (fn [n acc] (cond (< n 1) acc :else (cnt (- n 1) (+ acc 1))))) (cnt %d 0))",
	"(do (def deep (fn [n] (if (< n 1) 0 (+ 1 (deep (- n 1)))))) (deep %d))",
	"(do (def a (atom 0)) (def lp (fn [n] (if (< n 1) @a (do (swap! a inc) (lp (- n 1)))))) (lp %d))",
}

func (e *stepLongEngine) generate(r *rng, n int, tier string, emit func(string)) {
	sizes := []int{2500, 5000}
	if tier == "thorough" {
		sizes = []int{2500, 5000, 12000}
	}
	for p := range stepLongPrograms {
		for _, sz := range sizes {
			if p == 2 && sz > 2500 {
				sz = 2500 // non-tail recursion: stay well inside the host stack
			}
			for _, script := range []string{"n", "i", "xn", "inonxo"} {
				emit(fmt.Sprintf("prog=%d n=%d s=%s", p, sz, script))
			}
		}
	}
	for p := range stepRawPrograms {
		scripts := []string{"n", "xix", "inx", "nix", "o", "io", "iio"}
		for k := 0; k <= 14; k++ { // Next / Out answered on the k-th form the stepper is shown, NoOp or In before
			scripts = append(scripts, strings.Repeat("n", k)+"x", strings.Repeat("i", k)+"x", strings.Repeat("n", k)+"o", strings.Repeat("i", k)+"xx")
		}
		for _, script := range scripts {
			emit(fmt.Sprintf("prog=%d n=1 s=%s", 200+p, script))
		}
	}
	// tail loops far longer than any depth limit a stepping evaluator might be tempted to impose (TCO is off under a
	// stepper; the host stack is what bounds them, and 30 000 iterations are well within it)
	for _, p := range []int{0, 1, 3} {
		for _, script := range []string{"n", "i"} {
			emit(fmt.Sprintf("prog=%d n=30000 s=%s", p, script))
		}
	}
	// … and one close to what the host stack carries (measured: > 100 000 iterations of these loops fit in Go's default
	// 1 GB goroutine stack under a stepper): "every program that terminates within the host stack"
	emit("prog=0 n=90000 s=i")
	if tier == "thorough" {
		emit("prog=1 n=90000 s=n")
		emit("prog=3 n=90000 s=i")
	}
	for p := range stepFuturePrograms {
		for _, script := range []string{"n", "i", "xn"} {
			emit(fmt.Sprintf("prog=%d n=1 s=%s", 100+p, script))
		}
	}
	// a debugging session that ENDS while a command is still pending (Out / Next answered on one of the last forms),
	// then the stepper is removed and an ordinary tail loop runs in the same process: nothing of the session may linger
	for _, pre := range []string{"", "n", "nn", "nnn", "nnnn", "nnnnn", "i", "ii", "iii", "iiii", "in", "ini", "nin"} {
		for _, last := range []string{"o", "x", "oo", "ox"} {
			emit("leftover s=" + pre + last)
		}
	}
}

const leftoverSession = "(do (def f (fn [x] (+ x 1))) (f 41))"
const leftoverProbe = "(do (def lp (fn [n] (if (< n 1) (depth!) (do (depth!) (lp (- n 1)))))) (def lq (fn [n] (cond (< n 1) :done :else (do (depth!) (lq (- n 1)))))) (lp 30) (lq 30))"

func (e *stepLongEngine) runLeftover(script string) string {
	sess, err := parseText(leftoverSession)
	if err != nil {
		return "bad-case"
	}
	probe, err := parseText(leftoverProbe)
	if err != nil {
		return "bad-case"
	}
	if r := resultPart(runProgram(sess, -1, script, nil)); r != "ok I42" {
		return "session " + r + "\t!the stepped session computed " + r + " instead of 42 (script " + script + ")"
	}
	// no stepper installed any more, and NO reset of the process-wide flags: the next evaluation is an ordinary one
	o := runProgram(probe, -1, "-", nil)
	marks := strings.Fields(strings.Trim(field(o, "marks"), "[]"))
	if !strings.HasPrefix(o, "ok") || len(marks) < 60 {
		return "probe " + resultPart(o) + "\t!a tail loop run after a finished debugging session did not complete normally: " + o[:min(len(o), 160)]
	}
	for i := 1; i < 30; i++ {
		if marks[i] != marks[0] {
			return "grows\t!after a debugging session ended (script " + script + ") a tail loop WITHOUT a stepper uses more host stack at every iteration: depth marks " + strings.Join(marks[:6], " ") + " …"
		}
	}
	for i := 32; i < 61; i++ {
		if marks[i] != marks[31] {
			return "grows\t!after a debugging session ended (script " + script + ") a cond loop WITHOUT a stepper uses more host stack at every iteration"
		}
	}
	return "ok"
}

func (e *stepLongEngine) run(payload string) string {
	if strings.HasPrefix(payload, "leftover s=") {
		return e.runLeftover(strings.TrimPrefix(payload, "leftover s="))
	}
	var p, n int
	var script string
	if _, err := fmt.Sscanf(payload, "prog=%d n=%d s=%s", &p, &n, &script); err != nil || p < 0 || (p >= len(stepLongPrograms) && (p < 100 || (p < 200 && p-100 >= len(stepFuturePrograms)) || (p >= 200 && p-200 >= len(stepRawPrograms)))) {
		return "bad-case"
	}
	src := ""
	if p >= 200 {
		src = stepRawPrograms[p-200]
	} else if p >= 100 {
		src = stepFuturePrograms[p-100]
	} else {
		src = stepLongPrograms[p]
	}
	ast, err := parseText(fmt.Sprintf(src, n))
	if err != nil {
		return "bad-case"
	}
	plain := resultPart(runProgram(ast, -1, "-", nil))
	stepped := resultPart(runProgram(ast, -1, script, nil))
	if plain != stepped {
		return "differs\t!with a stepper installed (script " + script + ") the program computes " + stepped[:min(len(stepped), 200)] + " , without " + plain[:min(len(plain), 200)]
	}
	if !strings.HasPrefix(plain, "ok") {
		return "setup-error " + plain[:min(len(plain), 100)]
	}
	return "ok"
}

func (e *stepLongEngine) classify(payload, obs string) string {
	return strings.Fields(payload + " ?")[0] + "/" + strings.SplitN(obs, "\t", 2)[0]
}

// parseText reads lisp source with the real reader (no positions needed by the caller)
func parseText(src string) (MalType, error) { return lisp.READ(src, nil, nil) }

// engine "afterdebug" (C08): only the `leftover` cases above — a tail loop run WITHOUT a stepper, in a process where a
// debugging session has ended, consumes no additional host stack per iteration.
type afterDebugEngine struct{ stepLongEngine }

func init() { register("afterdebug", &afterDebugEngine{}) }

func (e *afterDebugEngine) generate(r *rng, n int, tier string, emit func(string)) {
	e.stepLongEngine.generate(r, n, tier, func(p string) {
		if strings.HasPrefix(p, "leftover ") {
			emit(p)
		}
	})
}

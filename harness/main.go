package main

// verifharness: correspondence harness linking /repo's working tree.
//
//   harness run <engine> -seed S -n N -req FILE -obs FILE [-cases FILE] [-tier quick|thorough]
//       generates (or reads) request lines, runs the real code in-process and writes
//       one request line (for the Lean driver) and one observation line per case.
//   harness facts -out DIR       regenerates the Lean fact files from /repo's source.

import (
	"bufio"
	"encoding/json"
	"flag"
	"fmt"
	"os"
	"runtime"
	"runtime/debug"
	"sort"
	"strings"
	"time"
)

type engine interface {
	// generate appends the request payloads of this run (tier, seed, n).
	generate(r *rng, n int, tier string, emit func(payload string))
	// run executes one payload against the real code and returns the observation line.
	run(payload string) string
	// classify names the construct class of a payload (for the distribution in the evidence).
	classify(payload, obs string) string
}

// engineX: engines whose request line carries something computed by the Go run itself
// (e.g. the text Go printed, for the model to match up to map order).
type engineX interface {
	runX(payload string) (obs, extra string)
}

var engines = map[string]engine{}

func register(name string, e engine) { engines[name] = e }

// safeRun runs f under recover and a watchdog; a Go panic that escapes the code under test
// is reported as "PANIC <top frame inside /repo>".
func safeRun(f func() string, limit time.Duration) (obs string) {
	done := make(chan string, 1)
	go func() {
		defer func() {
			if r := recover(); r != nil {
				done <- "PANIC " + panicSite(debug.Stack())
			}
		}()
		done <- f()
	}()
	select {
	case s := <-done:
		return s
	case <-time.After(limit):
		return "HANG"
	}
}

// safeRunInline: recover only (no watchdog), for sub-steps of one case
func safeRunInline(f func() string) (obs string) {
	defer func() {
		if r := recover(); r != nil {
			obs = "PANIC " + panicSite(debug.Stack())
		}
	}()
	return f()
}

func oneLine(s string) string {
	s = strings.ReplaceAll(s, "\n", "\\n")
	s = strings.ReplaceAll(s, "\t", " ")
	if len(s) > 200 {
		s = s[:200]
	}
	return s
}

// panicSite extracts the first frame below the panic that lies in github.com/jig/lisp.
func panicSite(stack []byte) string {
	lines := strings.Split(string(stack), "\n")
	seenPanic := false
	for _, l := range lines {
		if strings.HasPrefix(l, "panic(") {
			seenPanic = true
			continue
		}
		if !seenPanic {
			continue
		}
		if strings.HasPrefix(l, "github.com/jig/lisp") {
			fn := l
			if i := strings.LastIndex(fn, "("); i > 0 {
				fn = fn[:i]
			}
			return strings.TrimLeft(strings.TrimPrefix(fn, "github.com/jig/lisp"), "/.")
		}
	}
	return "?"
}

func main() {
	if len(os.Args) < 2 {
		fmt.Fprintln(os.Stderr, "usage: harness run|facts ...")
		os.Exit(2)
	}
	switch os.Args[1] {
	case "run":
		cmdRun(os.Args[2:])
	case "facts":
		cmdFacts(os.Args[2:])
	default:
		// sub-commands registered by engine files (e.g. `replchild` of eng_replloop.go: the child process running the real REPL)
		if f, ok := subcommands[os.Args[1]]; ok {
			f(os.Args[2:])
			return
		}
		fmt.Fprintln(os.Stderr, "unknown command")
		os.Exit(2)
	}
}

var subcommands = map[string]func(args []string){}

func cmdRun(args []string) {
	if len(args) < 1 {
		fmt.Fprintln(os.Stderr, "usage: harness run <engine> ...")
		os.Exit(2)
	}
	name := args[0]
	e, ok := engines[name]
	if !ok {
		fmt.Fprintln(os.Stderr, "unknown engine", name)
		os.Exit(2)
	}
	fs := flag.NewFlagSet("run", flag.ExitOnError)
	seed := fs.Uint64("seed", 1, "seed")
	n := fs.Int("n", 1000, "number of generated cases")
	reqPath := fs.String("req", "", "request file (written)")
	obsPath := fs.String("obs", "", "observation file (written)")
	casesPath := fs.String("cases", "", "read request payloads from this file instead of generating")
	tier := fs.String("tier", "quick", "tier")
	fs.Parse(args[1:])

	var payloads []string
	if *casesPath != "" {
		f, err := os.Open(*casesPath)
		if err != nil {
			fmt.Fprintln(os.Stderr, err)
			os.Exit(2)
		}
		sc := bufio.NewScanner(f)
		sc.Buffer(make([]byte, 1<<20), 1<<26)
		for sc.Scan() {
			l := sc.Text()
			if l == "" || strings.HasPrefix(l, "#") {
				continue
			}
			// corpus lines may carry the engine prefix
			if strings.HasPrefix(l, name+"\t") {
				l = l[len(name)+1:]
			}
			if _, isX := e.(engineX); isX {
				// the extra column is recomputed by the run
				if i := strings.Index(l, "\t"); i >= 0 {
					l = l[:i]
				}
			}
			payloads = append(payloads, l)
		}
		f.Close()
	} else {
		e.generate(newRng(*seed), *n, *tier, func(p string) { payloads = append(payloads, p) })
	}

	req, err := os.Create(*reqPath)
	if err != nil {
		fmt.Fprintln(os.Stderr, err)
		os.Exit(2)
	}
	obs, err := os.Create(*obsPath)
	if err != nil {
		fmt.Fprintln(os.Stderr, err)
		os.Exit(2)
	}
	rw := bufio.NewWriterSize(req, 1<<20)
	ow := bufio.NewWriterSize(obs, 1<<20)
	classes := map[string]int{}
	distinct := map[string]struct{}{}
	start := time.Now()
	// lines the Lean driver needs before the cases (e.g. library sources); they have no observation
	if pr, ok := e.(interface{ preamble() []string }); ok {
		for _, l := range pr.preamble() {
			fmt.Fprintf(rw, "%s\n", l)
			fmt.Fprintf(ow, "%s\n", "-")
		}
	}
	ex, hasExtra := e.(engineX)
	leanName := name
	if ln, ok := e.(interface{ leanName() string }); ok {
		leanName = ln.leanName()
	}
	// the payload being run is left in <obs>.cur: if the process dies (a Go fatal error cannot be recovered) the
	// orchestrator re-runs that case alone
	curPath := *obsPath + ".cur"
	cur, _ := os.Create(curPath)
	blocked := 0
	caseTimeout := 10 * time.Second
	if ct, ok := e.(interface{ caseTimeout() time.Duration }); ok {
		caseTimeout = ct.caseTimeout()
	}
	for _, p := range payloads {
		if cur != nil {
			cur.Truncate(0)
			cur.WriteAt([]byte(p), 0)
		}
		extra := ""
		ct := caseTimeout
		if f, ok := e.(interface{ caseTimeoutFor(string) time.Duration }); ok {
			ct = f.caseTimeoutFor(p)
		}
		o := safeRun(func() string {
			if hasExtra {
				var ob string
				ob, extra = ex.runX(p)
				return ob
			}
			return e.run(p)
		}, ct)
		if hasExtra {
			fmt.Fprintf(rw, "%s\t%s\t%s\n", leanName, p, extra)
		} else {
			fmt.Fprintf(rw, "%s\t%s\n", leanName, p)
		}
		fmt.Fprintf(ow, "%s\n", o)
		classes[e.classify(p, o)]++
		distinct[p] = struct{}{}
		if strings.HasPrefix(o, "BLOCKED") {
			// each blocked case costs a watchdog period and leaves goroutines behind: three of them settle the matter
			blocked++
			if blocked >= 3 {
				classes["aborted-after-blocked"]++
				break
			}
		}
		if strings.HasPrefix(o, "HANG") {
			// the hung evaluation keeps running in its goroutine and cannot be killed: stop here,
			// the case is reported (a hang is a violation or a disagreement in every engine)
			classes["aborted-after-hang"]++
			break
		}
	}
	rw.Flush()
	ow.Flush()
	req.Close()
	obs.Close()
	if cl, ok := e.(interface{ cleanup() }); ok {
		cl.cleanup() // scratch directories an engine made under the system's temporary directory
	}
	if cur != nil {
		cur.Close()
		os.Remove(curPath)
	}
	keys := make([]string, 0, len(classes))
	for k := range classes {
		keys = append(keys, k)
	}
	sort.Strings(keys)
	stats := map[string]interface{}{
		"engine":   name,
		"cases":    len(payloads),
		"distinct": len(distinct),
		"classes":  classes,
		"wall_s":   time.Since(start).Seconds(),
		"go":       runtime.Version(),
	}
	js, _ := json.Marshal(stats)
	fmt.Println(string(js))
}

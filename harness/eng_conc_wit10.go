package main

// witnesses added after round 10 of the seeded changes

import (
	"strings"
	"time"
)

func init() {
	// C09: an update function whose atom is re-set, while it runs, to a value that is EQUAL (=) to the one it was given
	// but not the same value (a list for a vector, other metadata): the swap! must be retried with the value that is
	// there at commit time — `=` is not "nothing happened"
	addWitness("swap-retries-when-reset-to-an-equal-but-different-value", "a", func(iters int) string {
		for _, c := range []struct{ first, second, probe, want string }{
			{"[1 2]", "(list 1 2)", "(fn [v] (do (enter!) [(vector? v) (list? v)]))", "ok ( V F T )"},
			{"(with-meta [1] {:rev 1})", "(with-meta [1] {:rev 2})", "(fn [v] (do (enter!) (meta v)))", "ok ( M Sca9e726576 I2 )"},
			{"{:k [1]}", "{:k (list 1)}", "(fn [v] (do (enter!) (vector? (get v :k))))", "ok F"},
		} {
			w, err := newConcWorld()
			if err != nil {
				return "setup-error"
			}
			g := newGate(w, "enter!")
			if o := evalW(w, "(def a (atom "+c.first+"))"); !strings.HasPrefix(o, "ok") {
				return "setup " + o
			}
			res := make(chan string, 1)
			go func() { res <- evalW(w, "(swap! a "+c.probe+")") }()
			select {
			case <-g.entered: // the update function is running on the first value
			case <-time.After(10 * time.Second):
				return "setup-error update function never entered"
			}
			if o := evalW(w, "(do (reset! a "+c.second+") nil)"); o != "ok N" {
				return "setup " + o
			}
			// let the first attempt finish (later attempts pass the gate at once)
			close(g.release)
			var got string
			select {
			case got = <-res:
			case <-time.After(15 * time.Second):
				return "BLOCKED\t!swap! never returned"
			}
			if got != c.want {
				return got + "\t!while its update function ran on " + c.first + " the atom was reset to " + c.second + " (equal by =, not the same value): swap! must apply the function to the value it replaces; expected " + c.want
			}
		}
		return "ok"
	})
	// C09 ("no update lost"): an update function that is invalidated MANY times in a row (here by itself, deterministically:
	// its first 70 000 runs re-set the atom) is simply retried until it can be installed; there is no number of attempts
	// after which swap! may give up
	addWitness("swap-retries-as-often-as-needed", "a", func(iters int) string {
		w, err := newConcWorld()
		if err != nil {
			return "setup-error"
		}
		o := evalW(w, `(do (def a (atom 0)) (def runs (atom 0))
		                   (def r (swap! a (fn [v] (do (swap! runs inc) (if (< (deref runs) 70001) (reset! a (+ v 1)) nil) (+ v 1000000)))))
		                   [r (deref a) (deref runs)])`)
		if o == "BLOCKED" {
			return "BLOCKED\t!a swap! whose update function was invalidated 70 000 times never returned"
		}
		if o != "ok ( V I1070000 I1070000 I70001 )" {
			return o + "\t!a swap! invalidated 70 000 times in a row must be retried until it installs its result ([1070000 1070000 70001])"
		}
		return "ok"
	})
}

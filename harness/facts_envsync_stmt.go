package main

import (
	"go/ast"
	"go/token"
	"strings"
)

func (w *envWalker) stmts(list []ast.Stmt) {
	for _, s := range list {
		w.stmt(s)
	}
}

func (w *envWalker) hold(h string) { w.held = append(w.held, h) }
func (w *envWalker) release(h string) {
	for i, x := range w.held {
		if x == h {
			w.held = append(append([]string(nil), w.held[:i]...), w.held[i+1:]...)
			return
		}
	}
}

func (w *envWalker) stmt(s ast.Stmt) {
	switch t := s.(type) {
	case *ast.ExprStmt:
		if m, ok := muCall(t.X); ok {
			switch m {
			case "RLock":
				w.emit(".rlock")
				w.hold(".r")
			case "Lock":
				w.emit(".lock")
				w.hold(".w")
			case "RUnlock":
				w.emit(".runlock")
				w.release(".r")
			case "Unlock":
				w.emit(".unlock")
				w.release(".w")
			}
			return
		}
		if c, ok := t.X.(*ast.CallExpr); ok && w.src(c.Fun) == "delete" && len(c.Args) == 2 {
			if sel, ok := c.Args[0].(*ast.SelectorExpr); ok && sel.Sel.Name == "data" {
				w.emit(".deleteData")
				w.access(w.src(sel.X), true)
				return
			}
		}
		if containsData(t) {
			w.unknown("expression statement", t)
		}
	case *ast.DeferStmt:
		if m, ok := muCall(t.Call); ok && m == "RUnlock" {
			w.emit(".deferRUnlock")
		} else if ok && m == "Unlock" {
			w.emit(".deferUnlock")
		} else {
			w.unknown("defer", t)
		}
	case *ast.AssignStmt:
		w.assign(t)
	case *ast.IfStmt:
		w.ifStmt(t)
	case *ast.RangeStmt:
		if sel, ok := t.X.(*ast.SelectorExpr); ok && sel.Sel.Name == "data" {
			w.emit(".rangeData")
			w.access(w.src(sel.X), false)
		}
		w.stmts(t.Body.List)
	case *ast.ForStmt:
		w.stmts(t.Body.List)
	case *ast.BlockStmt:
		w.stmts(t.List)
	case *ast.ReturnStmt:
		w.ret(t)
	case *ast.DeclStmt, *ast.IncDecStmt, *ast.BranchStmt, *ast.EmptyStmt:
	default:
		if containsData(s) {
			w.unknown("statement", s)
		}
	}
}

func (w *envWalker) assign(t *ast.AssignStmt) {
	// X.data[k] = v
	if len(t.Lhs) == 1 {
		if recv, ok := dataIndex(t.Lhs[0]); ok {
			if w.fresh[recv] {
				if w.binds == 0 {
					w.emit(".bindLoop")
				}
				w.binds++
			} else {
				w.emit(".writeData")
			}
			w.access(recv, true)
			return
		}
		// env.outer = outer on the scope under construction
		if sel, ok := t.Lhs[0].(*ast.SelectorExpr); ok && sel.Sel.Name == "outer" {
			if id, ok := sel.X.(*ast.Ident); ok && w.fresh[id.Name] {
				w.emit(".setOuter")
				return
			}
		}
	}
	if len(t.Rhs) == 1 {
		if c, ok := t.Rhs[0].(*ast.CallExpr); ok {
			fn := w.src(c.Fun)
			// env := _newSubordinateEnv(outer) / _newEnv(): the result is a scope nobody else has yet
			if fn == "_newSubordinateEnv" || fn == "_newEnv" {
				if id, ok := t.Lhs[0].(*ast.Ident); ok {
					w.fresh[id.Name] = true
				}
				saved := w.noRet
				w.noRet = true
				ok := w.inline(fn, t)
				w.noRet = saved
				if !ok {
					w.unknown("constructor", t)
				}
				return
			}
			if strings.HasSuffix(fn, ".GetNT") { // v, _ := e.GetNT(key)   (non-tail: Update)
				w.emit(".readVal")
				w.access(strings.TrimSuffix(fn, ".GetNT"), false)
				return
			}
			if id, ok := c.Fun.(*ast.Ident); ok && w.params[id.Name] {
				w.emit(".callback")
				w.afterCallback = true
				return
			}
		}
	}
	if containsData(t) {
		w.unknown("assignment", t)
	}
}

func (w *envWalker) ret(t *ast.ReturnStmt) {
	for _, r := range t.Results {
		if u, ok := r.(*ast.UnaryExpr); ok && u.Op == token.AND {
			if cl, ok := u.X.(*ast.CompositeLit); ok && w.src(cl.Type) == "Env" {
				w.emit(".alloc")
				continue
			}
		}
		if m, viaOuter, ok := envCall(r); ok && !viaOuter && strings.HasSuffix(m, "NT") {
			if w.inline(m, r) { // tail call of an unlocked helper: its returns are ours
				return
			}
		}
		if containsData(r) {
			w.unknown("return value", r)
		}
	}
	if !w.noRet {
		w.emit(".ret")
	}
}

package main

// data-race runs of engine "conc": the same stress in a child process built with -race.
//   race <what> <seed> <n>    what = atom-ops | atom-print | future-deref | future-flags | future-done-window | future-cancel-window | future-ignored-cancel
// The child is this harness rebuilt with `go build -race` (CGO needed); it runs the generated cases and
// its race reports (stderr) / violation markers (observation file) become this case's verdict.

import (
	"fmt"
	"os"
	"os/exec"
	"path/filepath"
	"regexp"
	"runtime"
	"sort"
	"strconv"
	"strings"
	"sync"
	"time"
)

var raceWhats = map[string]string{"atom-ops": "a", "atom-print": "a", "future-deref": "f", "future-flags": "f", "future-done-window": "f", "future-cancel-window": "f", "future-ignored-cancel": "f"}
var raceOrder = []string{"atom-ops", "atom-print", "future-deref", "future-flags", "future-done-window", "future-cancel-window", "future-ignored-cancel"}

var (
	raceOnce sync.Once
	raceBin  string
	raceErr  string
)

func harnessDir() string {
	_, file, _, _ := runtime.Caller(0)
	return filepath.Dir(file)
}

// buildRaceBinary: go build -race of this very harness (once per process; the go build cache makes it cheap)
func buildRaceBinary() {
	dir := harnessDir()
	out := filepath.Join(filepath.Dir(dir), ".build", fmt.Sprintf("harness-race.%d", os.Getpid()))
	final := filepath.Join(filepath.Dir(dir), ".build", "harness-race")
	cmd := exec.Command("go", "build", "-race", "-tags", "verif", "-o", out, ".")
	cmd.Dir = dir
	cmd.Env = append(os.Environ(), "CGO_ENABLED=1", "GOFLAGS=-mod=mod", "GOPROXY=off", "GOSUMDB=off", "GOTOOLCHAIN=local")
	if b, err := cmd.CombinedOutput(); err != nil {
		raceErr = oneLine(err.Error() + ": " + string(b))
		return
	}
	if err := os.Rename(out, final); err != nil {
		raceErr = oneLine(err.Error())
		return
	}
	raceBin = final
}

func raceCases(what string, r *rng, n int) []string {
	var cs []string
	for i := 0; i < n; i++ {
		switch what {
		case "atom-ops":
			cs = append(cs, genAtomHist(r, 0, false))
		case "atom-print":
			cs = append(cs, genAtomHist(r, 3, false))
		case "future-deref":
			cs = append(cs, genFutHistOnly(r, true))
		case "future-flags":
			cs = append(cs, genFutHist(r))
		}
	}
	iters := n * 400
	if iters > 40000 {
		iters = 40000 // the whole child has to finish well within the harness watchdog
	}
	switch what {
	case "future-done-window":
		cs = append(cs, fmt.Sprintf("wit future-done-after-deref %d", iters))
	case "future-cancel-window":
		cs = append(cs, fmt.Sprintf("wit future-cancel-after-delivery %d", iters))
	case "future-ignored-cancel":
		// a running future is cancelled, its body does not notice and completes: the body's final flag update and the
		// cancel's are two writers of the same flags (the witnesses orchestrate exactly that; race reports are kept)
		for i := 0; i < 3; i++ {
			cs = append(cs, "wit readers-agree-across-cancel 1", "wit cancelled-stays-cancelled 1", "wit cancel-while-body-naps 40")
		}
	}
	return cs
}

var reRaceAccess = regexp.MustCompile(`^(previous )?(read|write|atomic read|atomic write) at 0x[0-9a-f]+ by `)

// racePairs: canonical "<access> <function> / <access> <function>" of every report in the child's stderr
func racePairs(stderr string) []string {
	set := map[string]bool{}
	for _, block := range strings.Split(stderr, "WARNING: DATA RACE")[1:] {
		var sides []string
		lines := strings.Split(block, "\n")
		for i, l := range lines {
			m := reRaceAccess.FindStringSubmatch(strings.ToLower(l[:min(len(l), 60)]))
			if m == nil {
				continue
			}
			fn := "?"
			for _, fl := range lines[i+1:] {
				t := strings.TrimSpace(fl)
				if t == "" {
					break
				}
				if strings.HasPrefix(t, "github.com/jig/lisp") || strings.HasPrefix(t, "main.") {
					fn = strings.TrimSuffix(strings.TrimPrefix(t, "github.com/jig/lisp/"), "()")
					break
				}
			}
			sides = append(sides, m[2]+" "+fn)
		}
		if len(sides) >= 2 {
			sort.Strings(sides)
			set[strings.Join(sides[:2], " / ")] = true
		}
	}
	var out []string
	for k := range set {
		out = append(out, k)
	}
	sort.Strings(out)
	return out
}

var _ = strconv.Itoa
var _ = time.Second

func runRace(f []string) string {
	if len(f) != 4 {
		return "bad-case"
	}
	what := f[1]
	seed, err1 := strconv.ParseUint(f[2], 10, 64)
	n, err2 := strconv.Atoi(f[3])
	if _, ok := raceWhats[what]; !ok || err1 != nil || err2 != nil || n < 1 || n > 5000 {
		return "bad-case"
	}
	pairs, marks, bad := raceChild("conc", raceCases(what, newRng(seed), n))
	if bad != "" {
		return bad
	}
	if strings.HasSuffix(what, "-window") {
		pairs = nil // the flag races themselves are the business of `race future-flags`
	}
	switch {
	case len(pairs) > 0:
		return "race\t!data race: " + oneLine(strings.Join(pairs, " ; "))
	case len(marks) > 0:
		return "violation\t!under -race: " + oneLine(marks[0])
	}
	return "ok"
}

// raceChild runs the cases of an engine in the -race build of this harness: the distinct race reports
// (pairs of accesses), the violation markers of its observations, or an observation saying why not
func raceChild(engine string, cases []string) (pairs, marks []string, bad string) {
	raceOnce.Do(buildRaceBinary)
	if raceBin == "" {
		return nil, nil, "race-build-impossible " + raceErr
	}
	tmp, err := os.MkdirTemp("", "concrace")
	if err != nil {
		return nil, nil, "race-run-impossible"
	}
	defer os.RemoveAll(tmp)
	casesFile := filepath.Join(tmp, "cases")
	os.WriteFile(casesFile, []byte(strings.Join(cases, "\n")+"\n"), 0o644)
	obsFile := filepath.Join(tmp, "obs")
	cmd := exec.Command(raceBin, "run", engine, "-cases", casesFile, "-req", filepath.Join(tmp, "req"), "-obs", obsFile)
	cmd.Env = append(os.Environ(), "GORACE=halt_on_error=0 exitcode=66")
	var stderr strings.Builder
	cmd.Stderr = &stderr
	done := make(chan error, 1)
	if err := cmd.Start(); err != nil {
		return nil, nil, "race-run-impossible"
	}
	go func() { done <- cmd.Wait() }()
	select {
	case <-done:
	case <-time.After(60*time.Second + time.Duration(len(cases))*time.Second):
		// the child's own cases carry watchdogs (a blocked operation is reported there, and by the main run of the
		// same cases without -race); a child that is merely slow on a loaded machine is not a finding
		cmd.Process.Kill()
		return nil, nil, "race-child-timeout"
	}
	obs, _ := os.ReadFile(obsFile)
	for i, l := range strings.Split(string(obs), "\n") {
		if j := strings.Index(l, "\t!"); j >= 0 && i < len(cases) {
			marks = append(marks, strings.Join(strings.Fields(cases[i])[:2], " ")+": "+l[j+2:])
		}
	}
	return racePairs(stderr.String()), marks, ""
}

func mustRead(p string) []byte { b, _ := os.ReadFile(p); return b }

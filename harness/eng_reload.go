package main

// engine "reload" (C19): "loaded with load-file from a file" means the file AS IT IS NOW: a path that was loaded (or
// slurped) before, rewritten with another program of the same length and given back its old modification time, loads the
// NEW program — in the same environment and in a fresh one.  Harness-side oracle (files and mtimes are outside the model).

import (
	"context"
	"fmt"
	"os"
	"path/filepath"
	"strings"
	"time"

	"github.com/jig/lisp"
	"github.com/jig/lisp/command"
	"github.com/jig/lisp/lib/core/nscore"
	. "github.com/jig/lisp/types"
)

type reloadEngine struct{}

func init() { register("reload", &reloadEngine{}) }

func (e *reloadEngine) leanName() string { return "nomodel" }

func (e *reloadEngine) generate(r *rng, n int, tier string, emit func(string)) {
	for _, route := range []string{"load-file", "execute-file", "slurp"} {
		for _, fresh := range []string{"same-env", "fresh-env"} {
			emit(route + " " + fresh)
		}
	}
}

func (e *reloadEngine) run(payload string) string {
	f := strings.Fields(payload)
	if len(f) != 2 {
		return "bad-case"
	}
	dir := filepath.Join(os.TempDir(), "verif-routes")
	if d := os.Getenv("VERIF_SCRATCH"); d != "" {
		dir = d
	}
	os.MkdirAll(dir, 0o755)
	path := filepath.Join(dir, fmt.Sprintf("reload-%d-%s-%s.lisp", os.Getpid(), f[0], f[1]))
	defer os.Remove(path)
	stamp := time.Date(2024, 1, 2, 3, 4, 5, 0, time.UTC)
	newEnv := func() EnvType {
		ec := &evalCase{}
		env, err := freshEnv(ec)
		if err != nil {
			return nil
		}
		if err := nscore.LoadInput(env); err != nil {
			return nil
		}
		return env
	}
	env := newEnv()
	if env == nil {
		return "setup-error"
	}
	load := func(env EnvType) (string, error) {
		switch f[0] {
		case "load-file":
			if _, err := lisp.EVAL(context.Background(), ls(sy("load-file"), path), env); err != nil {
				return "", err
			}
		case "execute-file":
			if _, err := command.ExecuteFile(path, env); err != nil {
				return "", err
			}
		case "slurp":
			v, err := lisp.EVAL(context.Background(), ls(sy("slurp"), path), env)
			if err != nil {
				return "", err
			}
			return render(v), nil
		}
		v, err := lisp.EVAL(context.Background(), ls(sy("price"), 200), env)
		if err != nil {
			return "", err
		}
		return render(v), nil
	}
	var got []string
	for release, vat := range []int{10, 21, 35} {
		text := fmt.Sprintf("(def vat %d)\n(def price (fn [net] (+ net (/ (* net vat) 100))))\n", vat)
		if err := os.WriteFile(path, []byte(text), 0o644); err != nil {
			return "setup-error"
		}
		os.Chtimes(path, stamp, stamp) // a deployment that pins modification times; same byte length every release
		if f[1] == "fresh-env" && release > 0 {
			if env = newEnv(); env == nil {
				return "setup-error"
			}
		}
		v, err := load(env)
		if err != nil {
			return "load-error " + oneLine(err.Error())
		}
		want := render(200 + 200*vat/100)
		if f[0] == "slurp" {
			want = render(text)
		}
		got = append(got, v)
		if v != want {
			return strings.Join(got, ",") + fmt.Sprintf("\t!release %d of the file (same path, same length, same modification time) was loaded as an EARLIER content: got %s, the file now says %s", release+1, v, want)
		}
	}
	return "ok"
}

func (e *reloadEngine) classify(payload, obs string) string { return strings.SplitN(obs, "\t", 2)[0] }

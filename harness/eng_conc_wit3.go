package main

// witnesses of engine "conc" for the library code built on atoms (C09 anchor "gensym counter, memoize cache"):
// the atoms are reached through lisp closures only, so the direct-operation histories do not see them.

import (
	"context"
	"fmt"
	"strings"
	"sync"
)

func init() {
	// gensym = (symbol (str "G__" (swap! counter inc))): no two calls, on any threads, get the same symbol
	addWitness("gensym-distinct-across-threads", "a", func(iters int) string {
		w, err := newConcWorld()
		if err != nil {
			return "setup-error"
		}
		const k = 8
		per := iters / k / 10
		if per < 50 {
			per = 50
		}
		src := fmt.Sprintf("(do (def gs%%d (fn [n acc] (if (< n 1) acc (gs%%d (- n 1) (cons (str (gensym)) acc))))) (gs%%d %d ()))", per)
		res := make([]string, k)
		var wg sync.WaitGroup
		ok := within(10*concWatchdog, func() {
			for i := 0; i < k; i++ {
				wg.Add(1)
				go func(i int) {
					defer wg.Done()
					res[i] = w.evalObs(context.Background(), fmt.Sprintf(src, i, i, i))
				}(i)
			}
			wg.Wait()
		})
		if !ok {
			return "BLOCKED\t!concurrent gensym calls never return"
		}
		seen := map[string]int{}
		total := 0
		for i, r := range res {
			if len(r) < 3 || r[:3] != "ok " {
				return fmt.Sprintf("thread %d: %s\t!gensym failed under concurrency", i, r)
			}
			for _, f := range splitFields(r[3:]) {
				if len(f) > 1 && f[0] == 'S' {
					seen[f]++
					total++
				}
			}
		}
		if total != k*per {
			return fmt.Sprintf("got %d symbols, want %d", total, k*per)
		}
		for s, c := range seen {
			if c > 1 {
				return fmt.Sprintf("dup %s x%d\t!two gensym calls returned the same symbol (an increment of the shared counter was lost)", s, c)
			}
		}
		return "ok"
	})
	// memoize: every call of the memoized function, from any thread, returns f's value; the cache atom stays usable
	addWitness("memoize-concurrent-values", "a", func(iters int) string {
		w, err := newConcWorld()
		if err != nil {
			return "setup-error"
		}
		if _, err := w.eval(context.Background(), "(def msq (memoize (fn [x] (* x x))))"); err != nil {
			return "setup-error"
		}
		const k = 8
		res := make([]string, k)
		var wg sync.WaitGroup
		ok := within(10*concWatchdog, func() {
			for i := 0; i < k; i++ {
				wg.Add(1)
				go func(i int) {
					defer wg.Done()
					res[i] = w.evalObs(context.Background(),
						fmt.Sprintf("(do (def ml%d (fn [n acc] (if (< n 0) acc (ml%d (- n 1) (+ acc (msq n)))))) (ml%d 40 0))", i, i, i))
				}(i)
			}
			wg.Wait()
		})
		if !ok {
			return "BLOCKED\t!concurrent calls of a memoized function never return"
		}
		for i, r := range res {
			if r != "ok I22140" { // sum of squares 0..40
				return fmt.Sprintf("thread %d: %s\t!memoized function returned a wrong value under concurrency", i, r)
			}
		}
		if o := evalW(w, "(msq 7)"); o != "ok I49" {
			return o + "\t!memoize cache unusable after concurrent use"
		}
		return "ok"
	})
}

func splitFields(s string) []string {
	var out []string
	cur := ""
	for _, c := range s {
		if c == ' ' {
			if cur != "" {
				out = append(out, cur)
				cur = ""
			}
		} else {
			cur += string(c)
		}
	}
	if cur != "" {
		out = append(out, cur)
	}
	return out
}

func init() {
	// C10: "future-cancel on a completed future returns false and changes nothing" — nothing includes the futures
	// the completed body started, which run under a context derived from the body's
	addWitness("cancel-finished-future-changes-nothing", "f", func(iters int) string {
		w, err := newConcWorld()
		if err != nil {
			return "setup-error"
		}
		bg := context.Background()
		obs := ""
		if !within(10*concWatchdog, func() {
			obs = w.evalObs(bg, `(do (def outer (future (future (do (sleep 150) 42))))
			                         (def inner (deref outer))
			                         (let [c (future-cancel outer)]
			                           [c (future-cancelled? outer) (future-done? outer) (deref inner) (deref outer) (future-cancelled? inner)]))`)
		}) {
			return "BLOCKED\t!cancel of a finished future: the evaluation never returns"
		}
		// (deref outer) is the inner future object itself: compare the scalar parts only
		if !strings.HasPrefix(obs, "ok ( V F F T I42 ") || !strings.HasSuffix(obs, " F )") {
			return obs + "\t!future-cancel on a completed future changed something (expected [false false true 42 <future> false])"
		}
		return "ok"
	})
}

package main

// engine "errbi" (C03): the error builtins of the core library (throw, panic, go-error, new-error, new-go-error,
// unwrap-error, error-string) through the real interpreter: a value thrown or PANICKED with arrives unchanged at the
// nearest catch (or at the Go caller, via ErrorValue), through callbacks and nested tries; a Go error thrown arrives as
// that error (its text and its wrapped chain intact); a panic with an error value still wraps the original.
// Expectations are the property's own clauses on concrete programs (harness-side oracle; the evaluator model does not
// have these builtins: the Lean driver answers "-").

import (
	"context"
	"errors"
	"fmt"
	"strings"
	"time"

	"github.com/jig/lisp"
	"github.com/jig/lisp/lib/call"
	. "github.com/jig/lisp/types"
)

type errbiEngine struct{}

func init() { register("errbi", &errbiEngine{}) }

func (e *errbiEngine) leanName() string { return "nomodel" }

// want: rendered value; prefix "host:" = the program is NOT wrapped in try: the Go caller's err.ErrorValue() is compared
var errbiCases = []struct{ src, want string }{
	{`(try (panic {:a 1}) (catch e e))`, `{:a 1}`},
	{`(try (panic "s") (catch e e))`, `"s"`},
	{`(try (panic [1 [2 3]]) (catch e (count e)))`, `2`},
	{`(try (throw (go-error "boom")) (catch e (error-string e)))`, `"boom"`},
	{`(try (throw (go-error "n=%d" 7)) (catch e (error-string e)))`, `"n=7"`},
	{`(try (throw (new-error {:k 1})) (catch e e))`, `{:k 1}`},
	{`(try (throw (new-go-error "plain")) (catch e (error-string e)))`, `"plain"`},
	{`(try (throw (go-error "outer: %w" (go-error "inner"))) (catch e (error-string (unwrap-error e))))`, `"inner"`},
	{`(try (throw (go-error "outer: %w" (go-error "inner"))) (catch e (error-string e)))`, `"outer: inner"`},
	{`(try (try (panic [1 2]) (catch e (throw e))) (catch e2 e2))`, `[1 2]`},
	{`(try (try (throw {:v 1}) (finally (panic :from-finally))) (catch e e))`, `{:v 1}`},
	{`(try (map (fn [x] (panic x)) [7]) (catch e e))`, `7`},
	{`(try (apply panic [{:deep [1]}]) (catch e e))`, `{:deep [1]}`},
	{`(try (swap! (atom 0) (fn [x] (panic (list x :in-swap)))) (catch e e))`, `(0 :in-swap)`},
	{`(try (panic (go-error "p")) (catch e (error-string (unwrap-error e))))`, `"p"`},
	{`(do (def ge (go-error "same")) (try (throw ge) (catch e (= (error-string e) (error-string ge)))))`, `true`},
	{`(try (throw (go-error "x")) (catch e (string? e)))`, `false`},
	{`(let [r (try (panic :a) (catch e e))] [r (try (throw r) (catch e2 e2))])`, `[:a :a]`},
	// RAW builtins (not bound through lib/call) that panic — in a body, in a HANDLER, under a finally: the panic value is
	// the thrown value, the finally body still runs exactly once, the outer handler sees the value
	{`(try (raw-panic! {:k 1}) (catch e e))`, `{:k 1}`},
	{`(do (def log (atom [])) (try (try (throw {:a 1}) (catch e (raw-panic! e)) (finally (swap! log conj :released))) (catch e2 (swap! log conj [:outer e2]))) (deref log))`, `[:released [:outer {:a 1}]]`},
	{`(do (def log (atom [])) (try (try (raw-panic! :p) (finally (swap! log conj :released))) (catch e2 (swap! log conj [:outer e2]))) (deref log))`, `[:released [:outer :p]]`},
	{`(do (def log (atom [])) (try (try (throw 1) (catch e (raw-nth 7)) (finally (swap! log conj :released))) (catch e2 (swap! log conj :outer))) (deref log))`, `[:released :outer]`},
	{`(do (def log (atom [])) (try (map (fn [i] (try (raw-nth i) (finally (swap! log conj i)))) [1 7]) (catch e :caught)) (deref log))`, `[1 7]`},
	{`(let [orig (go-error (apply str (map (fn [i] "0123456789") (range 0 700))))] (try (panic orig) (catch e [(= orig (unwrap-error e)) (count (seq (error-string orig)))])))`, `[true 7000]`},
	{`host:(panic {:a 1})`, `{:a 1}`},
	{`host:(throw [1 "two" :three])`, `[1 "two" :three]`},
	{`host:(do (def f (fn [x] (panic x))) (map f [(list 1 2)]))`, `(1 2)`},
	{`host:(throw (new-error {:k [1 2]}))`, `{:k [1 2]}`},
}

func (e *errbiEngine) generate(r *rng, n int, tier string, emit func(string)) {
	for i := range errbiCases {
		emit(fmt.Sprintf("case=%d", i))
	}
	for i := range errbiCtxPrograms {
		for _, ms := range []int{60, 150} {
			emit(fmt.Sprintf("ctxerr=%d ms=%d", i, ms))
		}
	}
}

// ctxerr: a context-aware embedder builtin (`fetch!`) waits until ITS context ends and returns that context's error wrapped
// ("fetch: %w") — inside a try body it is the body's 80 % share that ends first, well before the evaluation's deadline.
// "an error returned by a Go builtin is delivered unchanged to the nearest enclosing catch, or else to the Go caller (Go
// errors still reachable with errors.Is)": the handler sees the text of fetch!'s error, the Go caller can still ask
// errors.Is(err, context.DeadlineExceeded).
var errbiCtxPrograms = []struct {
	src    string
	host   bool   // the error reaches the Go caller
	inText string // text the handler's (str e) / the caller's err.Error() must contain
}{
	{`(try (fetch!))`, true, "fetch: context deadline exceeded"},
	{`(try (fetch!) (catch e (str e)))`, false, "fetch: context deadline exceeded"},
	{`(try (fetch!) (catch e (throw e)))`, true, "fetch: context deadline exceeded"},
	{`(try (do (+ 1 2) (map (fn [x] (fetch!)) [1])) (catch e (str e)) (finally (+ 1 1)))`, false, "fetch: context deadline exceeded"},
	{`(try (try (fetch!) (finally 1)) (catch e (str e)))`, false, "fetch: context deadline exceeded"},
	{`(fetch!)`, true, "fetch: context deadline exceeded"},
}

func (e *errbiEngine) runCtxErr(i, ms int) string {
	c := errbiCtxPrograms[i]
	ec := &evalCase{}
	env, err := freshEnv(ec)
	if err != nil {
		return "setup-error"
	}
	call.CallOverrideFN(env, "fetch!", func(ctx context.Context) (MalType, error) {
		select {
		case <-ctx.Done():
			return nil, fmt.Errorf("fetch: %w", ctx.Err())
		case <-time.After(20 * time.Second):
			return "never", nil
		}
	})
	ast, err := lisp.READ(c.src, nil, env)
	if err != nil {
		return "setup-error"
	}
	ctx, cancel := context.WithTimeout(context.Background(), time.Duration(ms)*time.Millisecond)
	defer cancel()
	v, everr := lisp.EVAL(ctx, ast, env)
	if c.host {
		if everr == nil {
			return "differs\t!" + c.src + " under a deadline returned the value " + render(v) + " instead of fetch!'s error"
		}
		if !errors.Is(everr, context.DeadlineExceeded) || !strings.Contains(everr.Error(), c.inText) {
			return "differs\t!" + c.src + ": the Go builtin returned \"fetch: context deadline exceeded\" (wrapping context.DeadlineExceeded); the Go caller got " + oneLine(everr.Error())[:min(len(oneLine(everr.Error())), 160)] + fmt.Sprintf(" (errors.Is DeadlineExceeded: %v)", errors.Is(everr, context.DeadlineExceeded))
		}
		return "ok"
	}
	if everr != nil {
		// (the handler itself may run out of time on a slow machine: then the evaluation's own timeout is the outcome)
		if strings.Contains(everr.Error(), "timeout while") {
			return "ok"
		}
		return "differs\t!" + c.src + ": uncaught " + oneLine(everr.Error())[:min(len(oneLine(everr.Error())), 160)]
	}
	if s, _ := v.(string); !strings.Contains(s, c.inText) {
		return "differs\t!" + c.src + ": the handler must see the Go builtin's own error (\"" + c.inText + "\"); it saw " + render(v)[:min(len(render(v)), 200)] + " = " + oneLine(s)[:min(len(s), 120)]
	}
	return "ok"
}

func (e *errbiEngine) run(payload string) string {
	var i int
	if strings.HasPrefix(payload, "ctxerr=") {
		var ms int
		if _, err := fmt.Sscanf(payload, "ctxerr=%d ms=%d", &i, &ms); err != nil || i < 0 || i >= len(errbiCtxPrograms) {
			return "bad-case"
		}
		return e.runCtxErr(i, ms)
	}
	if _, err := fmt.Sscanf(payload, "case=%d", &i); err != nil || i < 0 || i >= len(errbiCases) {
		return "bad-case"
	}
	c := errbiCases[i]
	ec := &evalCase{}
	env, err := freshEnv(ec)
	if err != nil {
		return "setup-error"
	}
	host := strings.HasPrefix(c.src, "host:")
	ast, err := lisp.READ(strings.TrimPrefix(c.src, "host:"), nil, env)
	if err != nil {
		return "setup-error " + oneLine(err.Error())
	}
	wantAST, err := lisp.READ(c.want, nil, env)
	if err != nil {
		return "setup-error " + oneLine(err.Error())
	}
	want := render(wantAST)
	v, everr := lisp.EVAL(context.Background(), ast, env)
	got := ""
	switch {
	case host && everr == nil:
		got = "no error, value " + render(v)
	case host:
		ev, ok := everr.(interface{ ErrorValue() MalType })
		if !ok {
			got = "a Go error without ErrorValue: " + oneLine(everr.Error())
		} else {
			got = render(ev.ErrorValue())
		}
	case everr != nil:
		got = "uncaught: " + oneLine(everr.Error())
	default:
		got = render(v)
	}
	if got != want {
		return "differs\t!" + c.src + " gives " + got + " , the thrown / panicked value or error must arrive unchanged: expected " + want
	}
	return "ok"
}

func (e *errbiEngine) classify(payload, obs string) string { return strings.SplitN(obs, "\t", 2)[0] }

package main

// engine "hist" (C02): sequences of collection-producing operations applied to values produced
// earlier in the same sequence; every earlier binding is re-inspected after every step.

import (
	"context"
	"strings"

	"github.com/jig/lisp"
	. "github.com/jig/lisp/types"
)

type histEngine struct{}

func init() { register("hist", &histEngine{}) }

func (e *histEngine) preamble() []string { return []string{"init\t" + initPayload()} }

func vname(i int) string { return "v" + string(rune('a'+i%26)) + string(rune('0'+i/26)) }

// taint[j]: binding j may hold a set with more than one member (or something derived from one).  The order in which
// seq / vec / first / rest / concat / map … enumerate such a set is Go's map order, so tainted bindings are only handed
// to operations whose result does not depend on it (conj of a member, a list holding the value itself).
func (e *histEngine) step(r *rng, k int, taint []bool) (form MalType, tainted bool) {
	prev := func() MalType {
		for try := 0; try < 8; try++ {
			if j := r.intn(k); !taint[j] {
				return sy(vname(j))
			}
		}
		return vc(1, 2)
	}
	prevAny := func() MalType {
		j := r.intn(k)
		if taint[j] {
			tainted = true
		}
		return sy(vname(j))
	}
	form = e.step1(r, k, prev, prevAny, &tainted)
	return
}

func (e *histEngine) step1(r *rng, k int, prev, prevAny func() MalType, tainted *bool) MalType {
	if k == 0 || r.chance(1, 6) {
		if r.chance(1, 4) {
			// EMPTY collections held in a binding: every way of getting one
			return []MalType{
				HashMap{Val: map[string]MalType{}}, call1("hash-map"), call1("hash-set"), Set{Val: map[string]struct{}{}},
				call1("dissoc", HashMap{Val: map[string]MalType{kw("a"): 1}}, kw("a")), Vector{}, call1("list"), call1("vector"),
				call1("quote", HashMap{Val: map[string]MalType{}}), call1("rest", vc(1)),
			}[r.intn(10)]
		}
		if r.chance(1, 8) {
			// CODE held as data: a quoted program with library-macro calls nested inside (evaluating it later must not
			// rewrite it)
			return call1("quote", ls(sy("list"), 1, ls(sy("cond"), false, 1, true, ls(sy("or"), nil, 42)), ls(sy("and"), 1, ls(sy("->"), 2, ls(sy("+"), 1)))))
		}
		switch r.intn(8) {
		case 0:
			if r.chance(1, 2) {
				return vc(1, 2, 3, 4, 5) // 5 elements: capacity 8
			}
			return vc(1, 2, 3) // a vector literal: built by element-wise append, so it has spare capacity
		case 1:
			return call1("vector", 1, 2, 3)
		case 2:
			return call1("list", 1, 2, 3)
		case 3:
			return call1("range", 0, 5)
		case 4:
			return HashMap{Val: map[string]MalType{kw("a"): 1, kw("b"): vc(1, 2)}}
		case 5:
			return call1("hash-set", kw("a")) // one element: seq/vec of a set expose Go map order
		case 6:
			return call1("subvec", vc(1, 2, 3, 4, 5), 0, 2)
		default:
			if r.chance(1, 2) {
				return vc(vc(1, 2), vc(3, 4))
			}
			return vc(vc(1, 2), vc(3))
		}
	}
	lit := func() MalType { return 10 + r.intn(80) }
	switch r.intn(29) {
	case 27, 28:
		// a held value EVALUATED as a program (an error for most data; for quoted code the macro calls inside are expanded
		// on the way — into fresh forms, never into the held list)
		if r.chance(1, 2) {
			return call1("eval", prev())
		}
		return ls(sy("let"), vc(sy("held"), HashMap{Val: map[string]MalType{kw("prog"): prev()}}), call1("list", call1("eval", call1("get", sy("held"), kw("prog"))), sy("held")))
	case 25, 26:
		// closures created in successive iterations of a tail-recursive loop each keep the parameters of THEIR iteration
		// (the loop's frames are values captured by closures: a frame reused for the next iteration would change them)
		v := prev()
		loop := ls(sy("fn"), vc(sy("n"), sy("x"), sy("acc")),
			ls(sy("if"), call1("<", sy("n"), 1), sy("acc"),
				ls(sy("tl!"), call1("-", sy("n"), 1), call1("conj", sy("x"), sy("n")),
					call1("cons", ls(sy("fn"), vc(), call1("list", sy("n"), sy("x"))), sy("acc")))))
		return ls(sy("do"), ls(sy("def"), sy("tl!"), loop),
			call1("map", ls(sy("fn"), vc(sy("g")), ls(sy("g"))), ls(sy("tl!"), 2+r.intn(2), v, call1("list"))))
	case 0, 1, 2:
		return call1("conj", prev(), lit())
	case 3:
		return call1("conj", prev(), lit(), lit())
	case 4, 5:
		return call1("concat", prev(), vc(lit()))
	case 6:
		switch r.intn(4) {
		case 0:
			return call1("concat", prev(), prev())
		case 1: // n-ary, with empty leading / interleaved arguments
			return call1("concat", List{Val: []MalType{sy("list")}}, prev(), vc(lit()))
		case 2:
			return call1("concat", Vector{}, call1("list"), prev(), prev(), vc(lit()))
		default: // the flatten idiom
			return call1("apply", sy("concat"), call1("list", call1("list"), prev(), vc(lit())))
		}
	case 7:
		return call1("cons", lit(), prev())
	case 8:
		return call1("subvec", prev(), 0, 1+r.intn(2))
	case 9:
		return call1("rest", prev())
	case 10:
		return call1("vec", prev())
	case 11:
		return call1("seq", prev())
	case 12:
		return call1(r.pick([]string{"take", "drop", "take-last", "drop-last"}), 1+r.intn(2), prev())
	case 13:
		return call1("assoc", prev(), r.intn(2), lit())
	case 14:
		return call1("assoc", prev(), kw(r.pick([]string{"a", "c"})), lit())
	case 15:
		if r.chance(1, 2) {
			*tainted = true // a set may grow to two members here
			return call1("conj", prevAny(), kw(r.pick([]string{"a", "s"}))) // sets take keyword members
		}
		switch r.intn(3) {
		case 0:
			return call1("dissoc", prev(), kw("a"), kw("zz")) // a present key, then an absent one
		case 1:
			return call1("dissoc", prev(), kw("zz"), kw("a"), kw("b"))
		}
		return call1("dissoc", prev(), kw("a"))
	case 16:
		return call1("merge", prev(), HashMap{Val: map[string]MalType{kw("z"): lit()}})
	case 17:
		return call1("apply", sy(r.pick([]string{"conj", "concat", "vector", "list"})), prev(), vc(lit()))
	case 18:
		switch r.intn(4) {
		case 0: // the rest-parameter list of each call is a value of its own
			return call1("map", ls(sy("fn"), vc(sy("&"), sy("more")), sy("more")), prev())
		case 1:
			return call1("apply", ls(sy("fn"), vc(sy("a"), sy("&"), sy("more")), sy("more")), prev())
		case 2:
			return call1("map", ls(sy("fn"), vc(sy("a"), sy("&"), sy("more")), call1("cons", sy("a"), sy("more"))), prev())
		}
		return call1("map", ls(sy("fn"), vc(sy("x")), sy("x")), prev())
	case 19:
		return call1("quasiquote", ls(call1("splice-unquote", prev()), lit(), call1("splice-unquote", prev())))
	case 20:
		return call1("quasiquote", vc(call1("splice-unquote", prev()), call1("unquote", lit())))
	case 21:
		switch r.intn(4) {
		case 0:
			return call1("update", prev(), r.intn(2), ls(sy("fn"), vc(sy("x")), call1("conj", prev(), lit())))
		case 1: // nested paths: every level of the source must stay as it was
			return call1("update-in", prev(), vc(r.intn(2), r.intn(2)), ls(sy("fn"), vc(sy("x")), lit()))
		case 2:
			return call1("assoc-in", prev(), vc(r.intn(2), r.intn(2)), lit())
		default:
			return call1("update-in", prev(), vc(kw("b"), r.intn(2)), ls(sy("fn"), vc(sy("x")), lit()))
		}
	case 23:
		// a closure over a let binding keeps seeing it when a let in tail position rebinds the name to an extension
		v := prev()
		return ls(sy("let"), vc(sy("x"), v, sy("f"), ls(sy("fn"), vc(), sy("x"))),
			ls(sy("let"), vc(sy("x"), call1("conj", sy("x"), lit())), call1("list", ls(sy("f")), sy("x"))))
	case 22:
		// a handler's variable named like an existing binding shadows it for the handler only
		v := prev()
		return ls(sy("try"), call1("throw", call1("list", lit(), v)), ls(sy("catch"), v, call1("count", v)))
	default:
		return call1("first", call1("list", prevAny(), prevAny()))
	}
}

func (e *histEngine) generate(r *rng, n int, tier string, emit func(string)) {
	maxSteps := 10
	if tier == "thorough" {
		maxSteps = 30
	}
	for i := 0; i < n; i++ {
		k := 3 + r.intn(maxSteps-2)
		var steps []string
		taint := make([]bool, k)
		for j := 0; j < k; j++ {
			f, t := e.step(r, j, taint)
			taint[j] = t
			steps = append(steps, render(ls(sy("def"), sy(vname(j)), f)))
		}
		emit(strings.Join(steps, " || "))
	}
}

func (e *histEngine) run(payload string) string {
	steps := strings.Split(payload, " || ")
	ec := &evalCase{}
	env, err := freshEnv(ec)
	if err != nil {
		return "setup-error"
	}
	var out []string
	for j, s := range steps {
		ast, err := parse(s)
		if err != nil {
			return "bad-case"
		}
		_, everr := lisp.EVAL(context.Background(), ast, env)
		var b strings.Builder
		if everr != nil {
			b.WriteString("E")
		} else {
			b.WriteString("k")
		}
		for i := 0; i <= j; i++ {
			v, gerr := env.Get(Symbol{Val: vname(i)})
			if gerr != nil {
				b.WriteString(" ?")
			} else {
				b.WriteString(" " + render(v))
			}
		}
		out = append(out, b.String())
	}
	return strings.Join(out, " | ")
}

func (e *histEngine) classify(payload, obs string) string {
	return "steps=" + string(rune('0'+min(strings.Count(payload, " || ")/3, 9))) + "x3"
}

// engine "keptargs" (C02): the argument list a VARIADIC update function received on an earlier attempt of a retried
// swap! (or of an earlier call made by map / apply / update) is a value like any other: later attempts / calls do not
// change it.  The evaluator model applies a swap!'s function once (the retry of lib/concurrent is modelled in
// Conc.lean, not in the sequential evaluator), so this is a harness-side oracle with the expected value written out.
type keptArgsEngine struct{}

func init() { register("keptargs", &keptArgsEngine{}) }

func (e *keptArgsEngine) leanName() string { return "nomodel" }

var keptArgsCases = []struct{ src, want string }{
	// the update function changes the atom itself once: exactly one retry; both attempts' rest lists are kept
	{`(let [a (atom 0) kept (atom [])]
	    (swap! a (fn [& all] (swap! kept conj all) (if (< (count (deref kept)) 2) (reset! a 100)) (first all)) :x [1 2])
	    (list (deref kept) (deref a)))`, `([(0 :x [1 2]) (100 :x [1 2])] 100)`},
	{`(let [a (atom 5) kept (atom [])]
	    (swap! a (fn [cur & more] (swap! kept conj more) (if (< (count (deref kept)) 3) (reset! a (+ cur 1))) (+ cur (first more))) 10 20)
	    (list (deref kept) (deref a)))`, `([(10 20) (10 20) (10 20)] 17)`},
	{`(let [a (atom 0) seen (atom [])]
	    (swap! a (fn [& all] (swap! seen conj (fn [] all)) (if (< (count (deref seen)) 2) (reset! a 7)) 1))
	    (map (fn [g] (g)) (deref seen)))`, `((0) (7))`},
	{`(let [kept (atom [])] (map (fn [& xs] (swap! kept conj xs) (count (deref kept))) [:a :b :c]) (deref kept))`, `[(:a) (:b) (:c)]`},
	{`(let [kept (atom [])] (update {:k 1} :k (fn [& xs] (swap! kept conj xs) 2)) (update {:k 3} :k (fn [& xs] (swap! kept conj xs) 4)) (deref kept))`, `[(1) (3)]`},
	{`(let [kept (atom [])] (apply (fn [& xs] (swap! kept conj xs)) [1 2]) (apply (fn [& xs] (swap! kept conj xs)) [3]) (deref kept))`, `[(1 2) (3)]`},
	// a RAW builtin that keeps its argument slice as a list (the kanaka/mal way): the list it returned is a value; the
	// evaluator's later calls (more than any free list it might keep) do not write into it
	{`(do (def t (raw-tuple 1 2 3)) (def held {:p (raw-tuple :a :b :c :d)}) (def cl (let [x (raw-tuple 10 20 30)] (fn [] x)))
	     (def churn (fn [n] (if (< n 1) :done (do (+ 40 2) (str "a" "b") (list n n n) (vector 1 2 3 4) (do 1 2 3) (let [q 1] q) (churn (- n 1))))))
	     (churn 60)
	     (list t held (cl)))`, `((1 2 3) {:p (:a :b :c :d)} (10 20 30))`},
}

func (e *keptArgsEngine) generate(r *rng, n int, tier string, emit func(string)) {
	for i := range keptArgsCases {
		emit("case=" + string(rune('0'+i)))
	}
}

func (e *keptArgsEngine) run(payload string) string {
	i := int(payload[len(payload)-1] - '0')
	if !strings.HasPrefix(payload, "case=") || i < 0 || i >= len(keptArgsCases) {
		return "bad-case"
	}
	ec := &evalCase{}
	env, err := freshEnv(ec)
	if err != nil {
		return "setup-error"
	}
	ast, err := lisp.READ(keptArgsCases[i].src, nil, env)
	if err != nil {
		return "setup-error"
	}
	want, err := lisp.READ(keptArgsCases[i].want, nil, env)
	if err != nil {
		return "setup-error"
	}
	got := "BLOCKED"
	within(concWatchdog*2, func() {
		v, err := lisp.EVAL(context.Background(), ast, env)
		if err != nil {
			got = "err " + oneLine(err.Error())
		} else {
			got = render(v)
		}
	})
	if got != render(want) {
		return "differs\t!an argument list kept from an earlier attempt / call changed afterwards: got " + got + " expected " + render(want)
	}
	return "ok"
}

func (e *keptArgsEngine) classify(payload, obs string) string { return strings.SplitN(obs, "\t", 2)[0] }

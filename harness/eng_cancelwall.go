package main

// engine "cancelwall" (C07, the run-time part the poll-counting model cannot exhibit): real
// context.WithCancel / WithTimeout contexts on looping, recursing, macro-recursing, sleeping and
// future-waiting programs, also inside try/catch/finally handlers that loop or sleep again; EVAL must
// return within a generous bound after the context ends.  Harness-side oracle only (the Lean driver
// answers "-" for this engine: wall-clock behaviour is outside the model).

import (
	"context"
	"fmt"
	"strings"
	"time"

	"github.com/jig/lisp"
	"github.com/jig/lisp/lib/call"
	. "github.com/jig/lisp/types"
)

type cancelWallEngine struct{}

func init() { register("cancelwall", &cancelWallEngine{}) }

func (e *cancelWallEngine) leanName() string { return "nomodel" }

var wallPrograms = []string{
	"(spin 0)",
	"(mspin 0)",
	"(deep 1000000)",
	"(sleep 100000)",
	"(deref (future (sleep 100000)))",
	"(deref (future (spin 0)))",
	"(try (spin 0) (catch e (spin 100)))",
	"(try (sleep 100000) (catch e (sleep 100000)))",
	"(try (sleep 100000) (catch e (spin 0)) (finally (spin 0)))",
	"(try (try (spin 0) (catch e (mspin 0)) (finally (sleep 100000))) (catch e2 (spin 0)) (finally (deep 1000000)))",
	"(map (fn [x] (spin x)) [1 2 3])",
	"(let [a (atom 0)] (swap! a (fn [x] (spin x))))",
	"(reduce (fn [acc x] (spin x)) 0 [1 2])",
	"(mrec 0)",
	// futures created by an EARLIER evaluation under another context (the waiter's context is not the creator's)
	"(deref bgf)",
	"(deref bgspin)",
	"(try (deref bgf) (catch e (deref bgspin)) (finally (deref bgf)))",
	"(map deref [bgf bgspin])",
	"(let [f (future (deref bgf))] (deref f))",
	// handlers / finally bodies that are bare literals or symbols still start with a poll
	// (explicit cancellation only: under a deadline the handler has its share of the budget and may well return)
	"!cancel (try (spin 0) (catch e :swallowed))",
	"!cancel (try (sleep 100000) (catch e nil))",
	"!cancel (try (try (sleep 100000) (catch e 0)) (catch e2 \"outer\"))",
	"!cancel (try (spin 0) (catch e e) (finally 1))",
	// a future started by the evaluation must stop with it (its body runs under a context derived from the creator's)
	"(do (future (tick 0)) (spin 0))",
	"(do (def tf (future (tick 0))) (sleep 100000))",
	"(try (do (future (tick 0)) (sleep 100000)) (catch e (spin 0)))",
	// swap! whose update function is a BUILTIN that calls back into lisp code reading the swapped atom: returns, then the loop
	"(let [st (atom {:hits 0 :log [1 2]})] (do (swap! st update :hits (fn [h] (+ h (count (get (deref st) :log))))) (swap! st update-in [:hits] (fn [h] (+ h (get (deref st) :hits)))) (spin 0)))",
	// MANY live try / finally (and rethrowing catch) frames when the context ends: each cleanup body starts with a poll and
	// gives up at once — no per-frame grace can add up to seconds
	"(walk 120)",
	"(walkc 80)",
	// a running future that is cancelled and then dereferenced several times: every deref returns (an outcome or the
	// caller's timeout), none can park the evaluation beyond its context
	"(let [f (future (sleep 100000))] (do (future-cancel f) (sleep 3) (try (deref f) (catch e nil)) (try (deref f) (catch e nil)) (try (deref f) (catch e nil)) (spin 0)))",
	"(do (future-cancel bgspin) (sleep 3) (try (deref bgspin) (catch e nil)) (try (deref bgspin) (catch e nil)) (future-cancel bgf) (sleep 3) (try (deref bgf) (catch e nil)) (try (deref bgf) (catch e nil)) (spin 0))",
	// a future whose body sits in an embedder call that does not watch any context (`hold!`: returns only when the case is
	// over): waiting for it — also after future-cancel, also through a second future — ends with the WAITER's context
	"(deref (future (hold! 0)))",
	"(let [f (future (hold! 0))] (do (sleep 4) (future-cancel f) (deref f)))",
	"(let [f (future (hold! 0))] (do (sleep 4) (future-cancel f) (sleep 3) (try (deref f) (catch e nil)) (deref f)))",
	"(let [f (future (hold! 0)) g (future (deref f))] (do (sleep 4) (future-cancel f) (deref g)))",
	// a CROWD of futures of another evaluation (another context, which outlives this one) is still running: starting a
	// future, and everything else, goes on as if they were not there
	"!crowd (do (def probe (future (+ 1 2))) (deref probe) (spin 0))",
	"!crowd (do (future (tick 0)) (sleep 100000))",
	"!crowd (deref (future (sleep 100000)))",
}

const wallCrowdQuick, wallCrowdThorough = 6000, 24000

const wallDefs = `(do
 (def spin (fn [n] (spin (+ n 1))))
 (def deep (fn [n] (if (< n 1) 0 (+ 1 (deep (- n 1))))))
 (def mspin (fn [n] (cond false 0 true (mspin (+ n 1)))))
 (defmacro mrec (fn [n] (list 'mrec (+ n 1))))
 (def ticks (atom 0))
 (def tick (fn [n] (do (swap! ticks inc) (tick (+ n 1)))))
 (def walk (fn [n] (if (< n 1) (sleep 100000) (try (walk (- n 1)) (finally (sleep 40))))))
 (def walkc (fn [n] (if (< n 1) (spin 0) (try (walkc (- n 1)) (catch e (sleep 40) (throw e)) (finally (sleep 40))))))
 (def bgf (future (sleep 100000)))
 (def bgspin (future (spin 0)))
 nil)`

func (e *cancelWallEngine) generate(r *rng, n int, tier string, emit func(string)) {
	for i := range wallValuePrograms {
		emit(fmt.Sprintf("value prog=%d after=600ms", i))
	}
	emit("window after=24ms")
	emit("window after=18ms")
	for i := 0; i < n; i++ {
		p := i % len(wallPrograms)
		kind := []string{"cancel", "deadline"}[r.intn(2)]
		if strings.HasPrefix(wallPrograms[p], "!cancel ") {
			kind = "cancel"
		}
		suffix := ""
		if strings.HasPrefix(wallPrograms[p], "!crowd ") && tier == "thorough" && r.intn(3) == 0 {
			suffix = fmt.Sprintf(" crowd=%d", wallCrowdThorough)
		}
		emit(fmt.Sprintf("%s after=%dms prog=%d%s", kind, 5+r.intn(40), p, suffix))
	}
}

// window: "a timeout raised inside a try body can be caught, the handler still gets to run" — also when the try is
// entered only a few milliseconds before the deadline (the body gets 80 % of what is left).  The handler's window is
// then a few milliseconds, so the case is tried up to 12 times and passes as soon as the handler's value comes back once.
func (e *cancelWallEngine) runWindow(afterMs int) string {
	for attempt := 0; attempt < 12; attempt++ {
		ec := &evalCase{}
		env, err := freshEnv(ec)
		if err != nil {
			return "setup-error"
		}
		ast, err := lisp.READ("(try (sleep 100000) (catch e :caught))", nil, env)
		if err != nil {
			return "setup-error"
		}
		ctx, cancel := context.WithTimeout(context.Background(), time.Duration(afterMs)*time.Millisecond)
		v, err := lisp.EVAL(ctx, ast, env)
		cancel()
		if err == nil && render(v) == render("\u029ecaught") {
			return "ok"
		}
	}
	return fmt.Sprintf("handler-never-ran\t!a timeout raised inside a try body entered %d ms before the deadline was never caught: the handler did not get to run in 12 attempts", afterMs)
}

// value: programs that DO end under a deadline, with the value the budget rule prescribes: a timeout raised inside the
// body of a try is caught by THAT try's handler (the inner one), which gets to run (windows of tens of milliseconds)
var wallValuePrograms = []struct{ src, want string }{
	{"(try (try (sleep 100000) (catch e :inner)) (catch e2 :outer))", "\u029einner"},
	{"(do (def risky (fn [] (try (sleep 100000) (catch e :recovered)))) (try [(risky) :after] (catch e2 :outer)))", ""},
	{"(try (try (spin 0) (catch e :inner) (finally 1)) (catch e2 :outer))", "\u029einner"},
	// another reader (a helper future of the same evaluation) is already waiting on the future the try body derefs: the
	// body's own budget still ends its wait, and the handler gets to run
	{"(do (def slow (future (sleep 100000))) (future (deref slow)) (future (deref slow)) (sleep 20) (try (deref slow) (catch e :caught)))", "\u029ecaught"},
	// the finally body of a try whose BODY was cut by its time share still runs (exactly once), after the handler
	{"(do (def log (atom [])) (try (sleep 100000) (catch e (swap! log conj :caught)) (finally (swap! log conj :fin))) (deref log))", "=[:caught :fin]"},
	{"(do (def log (atom [])) (try (try (spin 0) (finally (swap! log conj :fin))) (catch e (swap! log conj :outer))) (deref log))", "=[:fin :outer]"},
}

func (e *cancelWallEngine) runValue(idx, afterMs int) string {
	if idx < 0 || idx >= len(wallValuePrograms) {
		return "bad-case"
	}
	ec := &evalCase{}
	env, err := freshEnv(ec)
	if err != nil {
		return "setup-error"
	}
	defs, err := lisp.READ("(def spin (fn [n] (spin (+ n 1))))", nil, env)
	if err != nil {
		return "setup-error"
	}
	lisp.EVAL(context.Background(), defs, env)
	ast, err := lisp.READ(wallValuePrograms[idx].src, nil, env)
	if err != nil {
		return "setup-error"
	}
	ctx, cancel := context.WithTimeout(context.Background(), time.Duration(afterMs)*time.Millisecond)
	defer cancel()
	v, err := lisp.EVAL(ctx, ast, env)
	got := "err"
	if err == nil {
		got = render(v)
	}
	want := wallValuePrograms[idx].want
	if want == "" {
		want = render(Vector{Val: []MalType{"\u029erecovered", "\u029eafter"}})
	} else if strings.HasPrefix(want, "=") {
		w, werr := lisp.READ(want[1:], nil, env)
		if werr != nil {
			return "setup-error"
		}
		want = render(w)
	} else {
		want = render(want)
	}
	if got != want {
		return "value=" + got + "\t!a timeout raised inside the body of a try was not handled as the property prescribes (that try's handler runs, its finally body runs once afterwards): " + wallValuePrograms[idx].src + " ⇒ " + got + " (expected " + want + ")"
	}
	return "ok"
}

func (e *cancelWallEngine) run(payload string) string {
	if strings.HasPrefix(payload, "value ") {
		var idx, ms int
		if _, err := fmt.Sscanf(payload, "value prog=%d after=%dms", &idx, &ms); err != nil {
			return "bad-case"
		}
		return e.runValue(idx, ms)
	}
	if strings.HasPrefix(payload, "window ") {
		var ms int
		if _, err := fmt.Sscanf(payload, "window after=%dms", &ms); err != nil {
			return "bad-case"
		}
		return e.runWindow(ms)
	}
	var kind string
	var afterMs, p, crowd int
	if i := strings.Index(payload, " crowd="); i >= 0 {
		fmt.Sscanf(payload[i:], " crowd=%d", &crowd)
		payload = payload[:i]
	}
	if _, err := fmt.Sscanf(strings.ReplaceAll(payload, "ms", ""), "%s after=%d prog=%d", &kind, &afterMs, &p); err != nil || p >= len(wallPrograms) {
		return "bad-case"
	}
	ec := &evalCase{}
	env, err := freshEnv(ec)
	if err != nil {
		return "setup-error"
	}
	defs, err := lisp.READ(wallDefs, nil, env)
	if err != nil {
		return "setup-error"
	}
	// the definitions (and the two background futures) live under their own context, ended when the case is over
	setupCtx, endSetup := context.WithCancel(context.Background())
	defer endSetup()
	if _, err := lisp.EVAL(setupCtx, defs, env); err != nil {
		return "setup-error"
	}
	// hold!: an embedder function that watches no context; it returns when the case is over
	release := make(chan struct{})
	defer close(release)
	call.CallOverrideFN(env, "hold!", func(n int) (MalType, error) { <-release; return n, nil })
	progText := strings.TrimPrefix(strings.TrimPrefix(wallPrograms[p], "!cancel "), "!crowd ")
	ast, err := lisp.READ(progText, nil, env)
	if err != nil {
		return "setup-error"
	}
	if strings.HasPrefix(wallPrograms[p], "!crowd ") {
		n := wallCrowdQuick
		if crowd > 0 {
			n = crowd
		}
		mk, err := lisp.READ(fmt.Sprintf("(do (def crowd (map (fn [i] (future (hold! i))) (range 0 %d))) (count crowd))", n), nil, env)
		if err != nil {
			return "setup-error"
		}
		made := make(chan error, 1)
		go func() { _, err := lisp.EVAL(setupCtx, mk, env); made <- err }()
		select {
		case err := <-made:
			if err != nil {
				return "setup-error"
			}
		case <-time.After(4 * time.Second): // the crowd could not even be started: go on, whatever is there is the crowd
		}
	}
	if strings.Contains(wallPrograms[p], "bgf") || strings.Contains(wallPrograms[p], "bgspin") {
		// ANOTHER evaluation (no deadline of its own; it ends with the case) is already waiting on the same futures:
		// a reader must wait for the outcome or for ITS OWN context, never for another reader
		for _, name := range []string{"bgf", "bgspin"} {
			w := ls(sy("deref"), sy(name))
			go func() { lisp.EVAL(setupCtx, w, env) }()
		}
		time.Sleep(3 * time.Millisecond)
	}
	after := time.Duration(afterMs) * time.Millisecond
	var ctx context.Context
	var cancel context.CancelFunc
	if kind == "deadline" {
		ctx, cancel = context.WithTimeout(context.Background(), after)
	} else {
		ctx, cancel = context.WithCancel(context.Background())
		time.AfterFunc(after, cancel)
	}
	defer cancel()
	type res struct {
		v   MalType
		err error
	}
	done := make(chan res, 1)
	start := time.Now()
	go func() {
		defer func() {
			if r := recover(); r != nil {
				done <- res{nil, fmt.Errorf("PANIC %v", r)}
			}
		}()
		v, err := lisp.EVAL(ctx, ast, env)
		done <- res{v, err}
	}()
	const bound = 3 * time.Second
	select {
	case r := <-done:
		over := time.Since(start) - after
		if r.err == nil {
			return "returned-value\t!a non-terminating program returned a value under cancellation: " + render(r.v)
		}
		if strings.HasPrefix(r.err.Error(), "PANIC") {
			return "PANIC\t!" + oneLine(r.err.Error())
		}
		if over > bound {
			return fmt.Sprintf("late\t!EVAL returned %v after the context ended (bound %v)", over.Round(time.Millisecond), bound)
		}
		if strings.Contains(wallPrograms[p], "(tick ") {
			// the ticking future must have stopped as well
			read := func() string {
				v, err := lisp.EVAL(context.Background(), ls(sy("deref"), sy("ticks")), env)
				if err != nil {
					return "?"
				}
				return render(v)
			}
			time.Sleep(300 * time.Millisecond)
			t1 := read()
			time.Sleep(200 * time.Millisecond)
			if t2 := read(); t1 != t2 {
				return fmt.Sprintf("future-still-running\t!a future started by the evaluation is still running after its creator's context ended (ticks %s → %s)", t1, t2)
			}
		}
		return "ok"
	case <-time.After(after + bound):
		return fmt.Sprintf("BLOCKED\t!EVAL still running %v after the context ended: %s (%s)", bound, wallPrograms[p], kind)
	}
}

func (e *cancelWallEngine) classify(payload, obs string) string {
	f := strings.Fields(payload + " ? ? ?")
	return f[0] + "/" + f[2] + "/" + strings.Fields(obs + " ?")[0]
}

// engine "tryfin" (C03): the try / catch / finally programs of the value list above, under a real deadline: "the finally
// body runs exactly once after body and handler have finished on every path" — also on the path where the body was cut by
// its share of the caller's deadline.  Same runner and oracle as cancelwall's value cases.
type tryFinEngine struct{ cancelWallEngine }

func init() { register("tryfin", &tryFinEngine{}) }

func (e *tryFinEngine) generate(r *rng, n int, tier string, emit func(string)) {
	for i, p := range wallValuePrograms {
		if strings.Contains(p.src, "finally") {
			for _, ms := range []int{400, 600, 900} {
				emit(fmt.Sprintf("value prog=%d after=%dms", i, ms))
			}
		}
	}
}

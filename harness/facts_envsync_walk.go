package main

// statement walker of the "EnvSync" fact group (see facts_envsync.go)

import (
	"bytes"
	"fmt"
	"go/ast"
	"go/printer"
	"go/token"
	"strings"
)

type envWalker struct {
	ef    *envFile
	fn    string
	ops   []string
	accs  []envAccess
	held  []string
	notes []string
	fresh map[string]bool // local variables holding a scope created in this function
	depth int
	binds int // writes to the fresh scope's data seen (emitted once as .bindLoop)
	noRet         bool            // inlining a non-tail helper: its return is not ours
	params        map[string]bool // parameters of the entry point (Update's function argument)
	afterCallback bool
}

func (w *envWalker) src(n ast.Node) string {
	var b bytes.Buffer
	printer.Fprint(&b, w.ef.fset, n)
	return b.String()
}

func (w *envWalker) emit(op string) { w.ops = append(w.ops, op) }

func (w *envWalker) unknown(what string, n ast.Node) {
	w.emit(".unknown")
	w.notes = append(w.notes, fmt.Sprintf("not understood: %s at line %d", what, w.ef.fset.Position(n.Pos()).Line))
}

func (w *envWalker) access(recv string, write bool) {
	w.accs = append(w.accs, envAccess{w.fn, write, append([]string(nil), w.held...), w.fresh[recv]})
}

func (w *envWalker) entry(decl string) {
	w.fresh = map[string]bool{}
	fd := w.ef.funcs[decl]
	if fd == nil {
		w.emit(".unknown")
		w.notes = append(w.notes, "function not found: "+decl)
		return
	}
	w.params = map[string]bool{}
	for _, f := range fd.Type.Params.List {
		for _, n := range f.Names {
			w.params[n.Name] = true
		}
	}
	w.stmts(fd.Body.List)
	if n := len(w.ops); n == 0 || w.ops[n-1] != ".ret" {
		w.emit(".ret")
	}
}

// dataIndex: X.data[…] -> receiver name
func dataIndex(e ast.Expr) (string, bool) {
	ix, ok := e.(*ast.IndexExpr)
	if !ok {
		return "", false
	}
	sel, ok := ix.X.(*ast.SelectorExpr)
	if !ok || sel.Sel.Name != "data" {
		return "", false
	}
	id, ok := sel.X.(*ast.Ident)
	if !ok {
		return "", false
	}
	return id.Name, true
}

// muCall: X.mu.<M>() -> M
func muCall(e ast.Expr) (string, bool) {
	c, ok := e.(*ast.CallExpr)
	if !ok || len(c.Args) != 0 {
		return "", false
	}
	s, ok := c.Fun.(*ast.SelectorExpr)
	if !ok {
		return "", false
	}
	in, ok := s.X.(*ast.SelectorExpr)
	if !ok || in.Sel.Name != "mu" {
		return "", false
	}
	return s.Sel.Name, true
}

// method call on the receiver or its outer: e.M(…) / e.outer.M(…) -> (M, viaOuter)
func envCall(e ast.Expr) (string, bool, bool) {
	c, ok := e.(*ast.CallExpr)
	if !ok {
		return "", false, false
	}
	s, ok := c.Fun.(*ast.SelectorExpr)
	if !ok {
		return "", false, false
	}
	switch x := s.X.(type) {
	case *ast.Ident:
		return s.Sel.Name, false, true
	case *ast.SelectorExpr:
		if x.Sel.Name == "outer" {
			return s.Sel.Name, true, true
		}
	}
	return "", false, false
}

func leanName(m string) string {
	return map[string]string{"Find": "find", "Get": "get", "Set": "set", "Remove": "remove", "Update": "update", "Symbols": "symbols"}[m]
}

// inline: the body of an unlocked helper (or constructor helper) at its call site, without its final return
func (w *envWalker) inline(name string, n ast.Node) bool {
	fd := w.ef.funcs["Env."+name]
	if fd == nil {
		fd = w.ef.funcs[name]
	}
	if fd == nil || w.depth > 3 {
		return false
	}
	w.depth++
	w.stmts(fd.Body.List)
	w.depth--
	return true
}

func containsData(n ast.Node) bool {
	found := false
	ast.Inspect(n, func(x ast.Node) bool {
		if s, ok := x.(*ast.SelectorExpr); ok && (s.Sel.Name == "data" || s.Sel.Name == "mu") {
			found = true
		}
		if c, ok := x.(*ast.CallExpr); ok {
			if s, ok := c.Fun.(*ast.SelectorExpr); ok && strings.HasSuffix(s.Sel.Name, "NT") {
				found = true
			}
		}
		return !found
	})
	return found
}

var _ = token.ADD

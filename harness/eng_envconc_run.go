package main

// engine "envconc": generation, the concurrent run against the solo oracle, the -race child

import (
	"context"
	"fmt"
	"os"
	"strconv"
	"strings"
	"sync"
	"time"

	"github.com/jig/lisp"
)

type envconcEngine struct{}

func init() { register("envconc", &envconcEngine{}) }

func (e *envconcEngine) leanName() string { return "conc" }

// a case carries its own watchdogs (one per repetition)
func (e *envconcEngine) caseTimeout() time.Duration { return 2 * time.Minute }

func (e *envconcEngine) generate(r *rng, n int, tier string, emit func(string)) {
	rn := 12
	if tier == "thorough" {
		rn = 60
	}
	emit(fmt.Sprintf("envconc race seed=%d n=%d", 1+r.intn(1000000), rn))
	// k evaluations that are ALL deep inside a non-tail recursion at the same time
	emit(fmt.Sprintf("envconc k=12 reps=2 seed=%d only=%d", 1+r.intn(1000000000), len(envTemplates)-1))
	emit(fmt.Sprintf("envconc k=16 reps=1 seed=%d only=%d", 1+r.intn(1000000000), len(envTemplates)-1))
	// evaluations that only READ globals made by an earlier evaluation (a pending future, a failing one, a memoized
	// function, an atom, a closure), some of them under a short deadline of their own
	emit(fmt.Sprintf("envconc shared reps=3 seed=%d", 1+r.intn(1000000000)))
	if tier == "thorough" {
		for i := 0; i < 6; i++ {
			emit(fmt.Sprintf("envconc shared reps=4 seed=%d", 1+r.intn(1000000000)))
		}
	}
	for i := 0; i < n; i++ {
		k := []int{2, 4, 8, 16}[r.intn(4)]
		emit(fmt.Sprintf("envconc k=%d reps=%d seed=%d", k, 2+r.intn(2), 1+r.intn(1000000000)))
	}
}

const envSharedSetup = `(do
 (def sh-fut (future (do (sleep 120) 42)))
 (def sh-err (future (do (sleep 90) (throw {:why :planned}))))
 (def sh-memo (memoize (fn [n] (+ n 1000))))
 (def sh-atom (atom {:a 1 :b [1 2 3]}))
 (def sh-map {:k1 "v1" :k2 [1 2]})
 (def sh-closure (let [n 10] (fn [x] (+ x n))))
 (def sh-done (future 7))
 nil)`

// the readers: none defines, swaps or cancels anything
func envSharedReaders(r *rng) (patient, impatient []string) {
	patient = []string{
		"(+ 1 @sh-fut)",
		"(try @sh-err (catch e e))",
		"(do @sh-fut [(future-cancelled? sh-fut) (future-done? sh-fut) @sh-fut])",
		"[(get @sh-atom :a) (count (get @sh-atom :b)) (get sh-map :k1) (sh-closure 5) @sh-done (future-cancelled? sh-done)]",
	}
	for i := 0; i < 5; i++ {
		patient = append(patient, fmt.Sprintf("(reduce + 0 (map sh-memo (range %d %d)))", 1000*i+r.intn(50), 1000*i+500+r.intn(200)))
	}
	for i := 0; i < 5; i++ {
		patient = append(patient, fmt.Sprintf("(reduce + 0 (map (fn [i] (sh-memo %d)) (range 0 %d)))", r.intn(3), 300+r.intn(200)))
	}
	impatient = []string{"(+ 1 @sh-fut)", "(try @sh-err (catch e e))", "(do @sh-fut (sh-memo 3))", "(deref sh-fut)"}
	return
}

func runEnvShared(reps int, seed uint64) string {
	r := newRng(seed)
	patient, impatient := envSharedReaders(r)
	world := func() (*envWorld, error) {
		w, err := newEnvWorld()
		if err != nil {
			return nil, err
		}
		setup, err := lisp.READ(envSharedSetup, nil, w.env)
		if err != nil {
			return nil, err
		}
		if _, err := lisp.EVAL(context.Background(), setup, w.env); err != nil {
			return nil, err
		}
		return w, nil
	}
	evalText := func(ctx context.Context, w *envWorld, src string) string {
		ast, err := lisp.READ(src, nil, w.env)
		if err != nil {
			return "read-error"
		}
		res, err := lisp.EVAL(ctx, ast, w.env)
		if err != nil {
			return renderErr(err)
		}
		return "ok " + render(res)
	}
	solo := make([]string, len(patient))
	var wg0 sync.WaitGroup
	for i := range patient {
		wg0.Add(1)
		go func(i int) { // (each on a world of its own: alone)
			defer wg0.Done()
			w, err := world()
			if err != nil {
				solo[i] = "setup-error"
				return
			}
			solo[i] = evalText(context.Background(), w, patient[i])
		}(i)
	}
	wg0.Wait()
	for i := range solo {
		if !strings.HasPrefix(solo[i], "ok ") {
			return "setup-error " + oneLine(solo[i])
		}
	}
	for rep := 0; rep < reps; rep++ {
		w, err := world()
		if err != nil {
			return "setup-error"
		}
		obs := make([]string, len(patient))
		ok := within(concWatchdog*3, func() {
			var wg sync.WaitGroup
			start := make(chan struct{})
			for i := range patient {
				wg.Add(1)
				go func(i int) {
					defer wg.Done()
					<-start
					obs[i] = evalText(context.Background(), w, patient[i])
				}(i)
			}
			for j := range impatient {
				wg.Add(1)
				go func(j int) {
					defer wg.Done()
					<-start
					ctx, cancel := context.WithTimeout(context.Background(), time.Duration(10+7*j+rep*5)*time.Millisecond)
					defer cancel()
					evalText(ctx, w, impatient[j]) // whatever it gets (a value or its timeout) is its own business
				}(j)
			}
			close(start)
			wg.Wait()
		})
		if !ok {
			return "BLOCKED\t!evaluations reading shared globals did not finish"
		}
		for i := range patient {
			if obs[i] != solo[i] {
				return fmt.Sprintf("differs\t!an evaluation that only reads shared globals, %s, run next to other readers (some with a deadline of their own) returns %s ; alone %s",
					patient[i], oneLine(obs[i])[:min(len(oneLine(obs[i])), 200)], oneLine(solo[i])[:min(len(oneLine(solo[i])), 200)])
			}
		}
	}
	return "ok"
}

func envconcParams(payload string) map[string]int {
	m := map[string]int{"k": 4, "reps": 2, "seed": 1, "n": 10, "only": -1}
	for _, f := range strings.Fields(payload) {
		if i := strings.Index(f, "="); i > 0 {
			if v, err := strconv.Atoi(f[i+1:]); err == nil {
				m[f[:i]] = v
			}
		}
	}
	return m
}

// runX: the Lean arm `conc` takes an extra column (unused here)
func (e *envconcEngine) runX(payload string) (string, string) { return e.run(payload), "-" }

func (e *envconcEngine) run(payload string) string {
	f := strings.Fields(payload)
	if len(f) == 0 || f[0] != "envconc" {
		return "bad-case"
	}
	p := envconcParams(payload)
	if len(f) > 1 && f[1] == "race" {
		r := newRng(uint64(p["seed"]))
		var cases []string
		for i := 0; i < p["n"] && i < 500; i++ {
			k := []int{2, 4, 8, 16}[r.intn(4)]
			cases = append(cases, fmt.Sprintf("envconc k=%d reps=2 seed=%d", k, 1+r.intn(1000000000)))
		}
		pairs, marks, bad := raceChild("envconc", cases)
		switch {
		case bad != "":
			return bad
		case len(pairs) > 0:
			return "race\t!data race: " + oneLine(strings.Join(pairs, " ; "))
		case len(marks) > 0:
			return "violation\t!under -race: " + oneLine(marks[0])
		}
		return "ok"
	}
	if len(f) > 1 && f[1] == "shared" {
		if p["reps"] < 1 || p["reps"] > 20 {
			return "bad-case"
		}
		return runEnvShared(p["reps"], uint64(p["seed"]))
	}
	k := p["k"]
	if k < 1 || k > envconcMaxProgs || p["reps"] < 1 || p["reps"] > 20 {
		return "bad-case"
	}
	envconcOnly = p["only"]
	defer func() { envconcOnly = -1 }()
	return runEnvConc(k, p["reps"], uint64(p["seed"]))
}

func runEnvConc(k, reps int, seed uint64) string {
	progs, err := genEnvProgs(newRng(seed), k, nil)
	if os.Getenv("ENVCONC_CLASH") != "" && err == nil && k >= 2 {
		progs[1] = progs[0] // self-test of the oracle: two programs sharing their global names and trace slot... 
	}
	if err != nil {
		return "setup-error " + oneLine(err.Error())
	}
	// solo oracle: each program alone on a fresh environment
	solo := make([]string, k)
	for i, p := range progs {
		w, err := newEnvWorld()
		if err != nil {
			return "setup-error"
		}
		solo[i] = progSummary(w, i, p, evalObsProg(w, i, p))
		if os.Getenv("ENVCONC_DEBUG") != "" {
			fmt.Fprintf(os.Stderr, "solo %d: %s\n", i, oneLine(solo[i]))
		}
	}
	for rep := 0; rep < reps; rep++ {
		w, err := newEnvWorld()
		if err != nil {
			return "setup-error"
		}
		obs := make([]string, k)
		ok := within(concWatchdog*3, func() {
			var wg sync.WaitGroup
			start := make(chan struct{})
			for i := range progs {
				wg.Add(1)
				go func(i int) {
					defer wg.Done()
					<-start
					obs[i] = evalObsProg(w, i, progs[i])
				}(i)
			}
			close(start)
			wg.Wait()
		})
		if !ok {
			return "BLOCKED\t!simultaneous evaluations on one environment did not finish"
		}
		for i, p := range progs {
			if got := progSummary(w, i, p, obs[i]); got != solo[i] {
				return fmt.Sprintf("differs\t!program %d of %d run simultaneously on one environment differs from its solo run: together %s ; alone %s",
					i, k, oneLine(got), oneLine(solo[i]))
			}
		}
	}
	return "ok"
}

func (e *envconcEngine) classify(payload, obs string) string {
	p := envconcParams(payload)
	v := "ok"
	if strings.Contains(obs, "\t!") {
		v = "VIOLATION"
	}
	if strings.Contains(payload, " race") {
		return "race/" + v
	}
	if strings.Contains(payload, " shared") {
		return "shared-readers/" + v
	}
	return fmt.Sprintf("k=%d/%s", p["k"], v)
}

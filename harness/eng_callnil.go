package main

// engine "callnil" (C20): "nil as the zero interface value … invoked iff every argument is assignable to its parameter;
// otherwise the caller gets a lisp error about the … type".  Go functions whose parameters are NILLABLE Go types other
// than MalType (error, pointer, slice, map, func, a non-empty interface) called with lisp nil, and with values of the
// wrong / right dynamic type: lisp nil is the zero interface{} value, which is assignable to none of those, so the
// function must NOT be entered and the caller gets a catchable error; a value of the right dynamic type enters.
// Harness-side oracle (the binder model's parameter kinds are int / string / MalType / Vector / HashMap / Symbol).

import (
	"context"
	"errors"
	"fmt"
	"strings"

	"github.com/jig/lisp"
	"github.com/jig/lisp/env"
	"github.com/jig/lisp/lib/call"
	. "github.com/jig/lisp/types"
)

type callNilEngine struct{}

func init() { register("callnil", &callNilEngine{}) }

func (e *callNilEngine) leanName() string { return "nomodel" }

type nilProbe struct{ entered int }

type stringer interface{ String() string }

var callNilShapes = []string{"error", "ptr", "bytes", "map", "func", "iface", "ctx-int-bytes", "variadic-err", "hashmap", "vector"}

func (e *callNilEngine) generate(r *rng, n int, tier string, emit func(string)) {
	for _, s := range callNilShapes {
		for _, a := range []string{"nil", "int", "str", "right"} {
			emit(s + " " + a)
		}
	}
}

func (e *callNilEngine) run(payload string) string {
	f := strings.Fields(payload)
	if len(f) != 2 {
		return "bad-case"
	}
	p := &nilProbe{}
	ns := env.NewEnv()
	var right MalType
	var fn MalType
	switch f[0] {
	case "error":
		fn = func(x error) (MalType, error) { p.entered++; return x == nil, nil }
		right = errors.New("an error value")
	case "ptr":
		fn = func(x *nilProbe) (MalType, error) { p.entered++; return x == nil, nil }
		right = &nilProbe{}
	case "bytes":
		fn = func(x []byte) (MalType, error) { p.entered++; return x == nil, nil }
		right = []byte("ab")
	case "map":
		fn = func(x map[string]int) (MalType, error) { p.entered++; return x == nil, nil }
		right = map[string]int{"a": 1}
	case "func":
		fn = func(x func()) (MalType, error) { p.entered++; return x == nil, nil }
		right = func() {}
	case "iface":
		fn = func(x stringer) (MalType, error) { p.entered++; return x == nil, nil }
		right = &Position{}
	case "ctx-int-bytes":
		fn = func(_ context.Context, i int, x []byte) (MalType, error) { p.entered++; return x == nil, nil }
		right = []byte("ab")
	case "variadic-err":
		fn = func(xs ...error) (MalType, error) { p.entered++; return len(xs), nil }
		right = errors.New("an error value")
	case "hashmap":
		fn = func(x HashMap) (MalType, error) { p.entered++; return x.Val == nil, nil }
		right = HashMap{Val: map[string]MalType{}}
	case "vector":
		fn = func(x Vector) (MalType, error) { p.entered++; return len(x.Val), nil }
		right = Vector{}
	default:
		return "bad-case"
	}
	if msg := safeRunInline(func() string { call.CallOverrideFN(ns, "probe", fn); return "" }); msg != "" {
		return "REGPANIC " + oneLine(msg)
	}
	var arg MalType
	switch f[1] {
	case "nil":
		arg = nil
	case "int":
		arg = 7
	case "str":
		arg = "s"
	case "right":
		arg = right
	default:
		return "bad-case"
	}
	args := []MalType{arg}
	if f[0] == "ctx-int-bytes" {
		args = []MalType{1, arg}
	}
	form := List{Val: append([]MalType{Symbol{Val: "probe"}}, func() []MalType {
		q := make([]MalType, len(args))
		for i, a := range args {
			q[i] = List{Val: []MalType{Symbol{Val: "quote"}, a}}
		}
		return q
	}()...)}
	res := safeRunInline(func() string {
		v, err := lisp.EVAL(context.Background(), form, ns)
		if err != nil {
			if _, isLisp := err.(interface{ ErrorValue() MalType }); !isLisp {
				return "err not-a-lisp-error"
			}
			return "err"
		}
		return "ok " + render(v)
	})
	obs := fmt.Sprintf("entered=%d %s", p.entered, res)
	shouldEnter := f[1] == "right"
	switch {
	case strings.HasPrefix(res, "PANIC"):
		return obs + "\t!a Go panic escaped from a call of a bound function"
	case shouldEnter && (p.entered != 1 || !strings.HasPrefix(res, "ok")):
		return obs + "\t!an argument assignable to the parameter did not reach the function (" + payload + ")"
	case !shouldEnter && p.entered != 0:
		return obs + "\t!the function was entered with an argument that is not assignable to its parameter (" + payload + "): lisp nil is the zero interface value, not a typed nil"
	case !shouldEnter && res != "err":
		return obs + "\t!a call with a non-assignable argument did not give the caller a lisp error (" + payload + ")"
	}
	return obs
}

func (e *callNilEngine) classify(payload, obs string) string { return strings.SplitN(obs, "\t", 2)[0] }

package main

// engine "callnil" (C20): "nil as the zero interface value … invoked iff every argument is assignable to its parameter;
// otherwise the caller gets a lisp error about the … type".  Go functions whose parameters are NILLABLE Go types other
// than MalType (error, pointer, slice, map, func, a non-empty interface) called with lisp nil, and with values of the
// wrong / right dynamic type: lisp nil is the zero interface{} value, which is assignable to none of those, so the
// function must NOT be entered and the caller gets a catchable error; a value of the right dynamic type enters.
// Harness-side oracle (the binder model's parameter kinds are int / string / MalType / Vector / HashMap / Symbol).

import (
	"context"
	"errors"
	"fmt"
	"strings"

	"github.com/jig/lisp"
	"github.com/jig/lisp/env"
	"github.com/jig/lisp/lib/call"
	. "github.com/jig/lisp/types"
)

type callNilEngine struct{}

func init() { register("callnil", &callNilEngine{}) }

func (e *callNilEngine) leanName() string { return "nomodel" }

type nilProbe struct{ entered int }

type stringer interface{ String() string }

var callNilShapes = []string{"error", "ptr", "bytes", "map", "func", "iface", "ctx-int-bytes", "variadic-err", "hashmap", "vector"}

func (e *callNilEngine) generate(r *rng, n int, tier string, emit func(string)) {
	for _, s := range callNilShapes {
		for _, a := range []string{"nil", "int", "str", "right"} {
			emit(s + " " + a)
		}
	}
	for _, c := range []string{"ctx", "noctx"} {
		for k := 0; k <= 70; k++ {
			emit(fmt.Sprintf("count %s %d", c, k))
		}
		for _, k := range []int{127, 128, 129, 255, 256, 257, 511, 512, 513, 999, 1000} { // (the binder's "unlimited" is 1000)
			emit(fmt.Sprintf("count %s %d", c, k))
		}
	}
	for _, n := range []int{10, 1000, 4095, 4096, 4097, 5000, 65535, 65536, 65537, 200000} {
		emit(fmt.Sprintf("bigpanic %d", n))
	}
	for _, k := range panicValKinds {
		for _, src := range []string{"nth", "throw", "throwmap", "unbound", "plain"} {
			emit("panicval " + k + " " + src)
		}
	}
}

// panicval <kind> <src>: a bound function calls back into the interpreter, gets an error (src: a failing builtin, a thrown
// string, a thrown map, an unbound symbol — all POSITIONED by the evaluator — or a plain Go error), dresses it (kind) and
// PANICS with the result: "a panic inside it becomes a catchable error that still wraps the original" — the original is
// the value the function panicked with, whatever that value itself wraps.
var panicValKinds = []string{"asis", "wrapf", "wrapf2", "join", "custom"}

type customWrap struct{ inner error }

func (c *customWrap) Error() string { return "custom wrapper around: " + c.inner.Error() }
func (c *customWrap) Unwrap() error { return c.inner }

func (e *callNilEngine) runPanicVal(kind, src string) string {
	ec := &evalCase{}
	ns, err := freshEnv(ec)
	if err != nil {
		return "setup-error"
	}
	text := map[string]string{"nth": "(do\n (nth [1 2] 7))", "throw": "(do\n (throw \"boom\"))", "throwmap": "(do\n (throw {:code 7}))", "unbound": "(do\n no-such-name)"}[src]
	var inner error
	if src == "plain" {
		inner = errors.New("plain failure")
	} else {
		ast, err := lisp.READ(text, NewCursorFile("cb.lisp"), ns)
		if err != nil {
			return "setup-error"
		}
		if _, inner = lisp.EVAL(context.Background(), ast, ns); inner == nil {
			return "setup-error"
		}
	}
	var orig error
	switch kind {
	case "asis":
		orig = inner
	case "wrapf":
		orig = fmt.Errorf("must-call: callback failed: %w", inner)
	case "wrapf2":
		orig = fmt.Errorf("outer: %w", fmt.Errorf("middle: %w", inner))
	case "join":
		orig = errors.Join(errors.New("first of two"), inner)
	case "custom":
		orig = &customWrap{inner}
	}
	call.CallOverrideFN(ns, "probe", func() (MalType, error) { panic(orig) })
	var cerr error
	var caught MalType
	res := safeRunInline(func() string {
		_, cerr = lisp.EVAL(context.Background(), List{Val: []MalType{Symbol{Val: "probe"}}}, ns)
		prog, err := lisp.READ("(try (probe) (catch e (str e)))", nil, ns)
		if err != nil {
			return "setup-error"
		}
		caught, _ = lisp.EVAL(context.Background(), prog, ns)
		return ""
	})
	if res != "" {
		return res + "\t!a Go panic escaped from a call of a bound function"
	}
	if cerr == nil {
		return "no-error\t!a bound function panicked and the call returned no error"
	}
	if kind == "asis" && (src == "nth" || src == "throw" || src == "unbound") {
		// the panic value IS a positioned interpreter error (its payload a Go error or a string: comparable): the caller's
		// error still wraps THAT value
		if why := safeRunInline(func() string {
			if !errors.Is(cerr, orig) {
				return "chain-lost"
			}
			return ""
		}); why != "" {
			return fmt.Sprintf("%s\t!a bound function panicked with the (positioned) interpreter error it got from a callback (%s): the caller's error must still wrap that value (errors.Is): got %s", why, src, oneLine(cerr.Error())[:min(len(oneLine(cerr.Error())), 160)])
		}
	}
	if kind != "asis" { // (asis with a map payload: comparing uncomparable payloads is not the binder's business)
		ok := safeRunInline(func() string {
			if !errors.Is(cerr, orig) {
				return "chain-lost"
			}
			return ""
		})
		if ok != "" {
			return fmt.Sprintf("%s\t!a bound function panicked with a %s wrapper around a %s error: the caller's error must still wrap THAT value (errors.Is): got %s", ok, kind, src, oneLine(cerr.Error())[:min(len(oneLine(cerr.Error())), 160)])
		}
		// the wrapper's own text is part of what the handler sees
		mark := map[string]string{"wrapf": "callback failed", "wrapf2": "middle:", "join": "first of two", "custom": "custom wrapper"}[kind]
		if cs, _ := caught.(string); !strings.Contains(cs, mark) {
			return fmt.Sprintf("text-lost\t!the handler of a panicking bound function (%s around %s) sees %s: the panic value's own text (%q) is gone", kind, src, render(caught)[:min(len(render(caught)), 160)], mark)
		}
	}
	return "ok"
}

// count <ctx|noctx> <k>: a variadic function called with exactly k arguments is entered with exactly those k arguments
// (every k: around 32, 64, 128, 256 … where a pooled or fixed-size buffer would end).
// bigpanic <n>: a bound function panics with an error whose text is n bytes long: the caller's error still wraps THAT error.
func (e *callNilEngine) runExtra(f []string) string {
	ns := env.NewEnv()
	switch f[0] {
	case "count":
		var k int
		fmt.Sscanf(f[2], "%d", &k)
		entered, got := 0, -1
		if f[1] == "ctx" {
			call.CallOverrideFN(ns, "probe", func(_ context.Context, xs ...MalType) (MalType, error) { entered++; got = len(xs); return len(xs), nil })
		} else {
			call.CallOverrideFN(ns, "probe", func(xs ...MalType) (MalType, error) { entered++; got = len(xs); return len(xs), nil })
		}
		form := []MalType{Symbol{Val: "probe"}}
		for i := 0; i < k; i++ {
			form = append(form, i)
		}
		res := safeRunInline(func() string {
			v, err := lisp.EVAL(context.Background(), List{Val: form}, ns)
			if err != nil {
				return "err " + oneLine(err.Error())
			}
			return "ok " + render(v)
		})
		if entered != 1 || got != k || res != "ok "+render(k) {
			return fmt.Sprintf("entered=%d with=%d %s\t!a variadic function (bounds 0 … unlimited) called with %d arguments must be entered once with exactly those arguments", entered, got, res[:min(len(res), 120)], k)
		}
		return "ok"
	case "bigpanic":
		var n int
		fmt.Sscanf(f[1], "%d", &n)
		orig := errors.New(strings.Repeat("x", n))
		call.CallOverrideFN(ns, "probe", func() (MalType, error) { panic(orig) })
		var cerr error
		res := safeRunInline(func() string {
			_, cerr = lisp.EVAL(context.Background(), List{Val: []MalType{Symbol{Val: "probe"}}}, ns)
			return ""
		})
		if res != "" {
			return res + "\t!a Go panic escaped from a call of a bound function"
		}
		if cerr == nil || !errors.Is(cerr, orig) {
			return fmt.Sprintf("chain-lost\t!a bound function panicked with an error value (%d bytes of text): the caller's error must still wrap the original (errors.Is)", n)
		}
		return "ok"
	}
	return "bad-case"
}

func (e *callNilEngine) run(payload string) string {
	f := strings.Fields(payload)
	if len(f) >= 2 && (f[0] == "count" || f[0] == "bigpanic") {
		return e.runExtra(f)
	}
	if len(f) == 3 && f[0] == "panicval" {
		return e.runPanicVal(f[1], f[2])
	}
	if len(f) != 2 {
		return "bad-case"
	}
	p := &nilProbe{}
	ns := env.NewEnv()
	var right MalType
	var fn MalType
	switch f[0] {
	case "error":
		fn = func(x error) (MalType, error) { p.entered++; return x == nil, nil }
		right = errors.New("an error value")
	case "ptr":
		fn = func(x *nilProbe) (MalType, error) { p.entered++; return x == nil, nil }
		right = &nilProbe{}
	case "bytes":
		fn = func(x []byte) (MalType, error) { p.entered++; return x == nil, nil }
		right = []byte("ab")
	case "map":
		fn = func(x map[string]int) (MalType, error) { p.entered++; return x == nil, nil }
		right = map[string]int{"a": 1}
	case "func":
		fn = func(x func()) (MalType, error) { p.entered++; return x == nil, nil }
		right = func() {}
	case "iface":
		fn = func(x stringer) (MalType, error) { p.entered++; return x == nil, nil }
		right = &Position{}
	case "ctx-int-bytes":
		fn = func(_ context.Context, i int, x []byte) (MalType, error) { p.entered++; return x == nil, nil }
		right = []byte("ab")
	case "variadic-err":
		fn = func(xs ...error) (MalType, error) { p.entered++; return len(xs), nil }
		right = errors.New("an error value")
	case "hashmap":
		fn = func(x HashMap) (MalType, error) { p.entered++; return x.Val == nil, nil }
		right = HashMap{Val: map[string]MalType{}}
	case "vector":
		fn = func(x Vector) (MalType, error) { p.entered++; return len(x.Val), nil }
		right = Vector{}
	default:
		return "bad-case"
	}
	if msg := safeRunInline(func() string { call.CallOverrideFN(ns, "probe", fn); return "" }); msg != "" {
		return "REGPANIC " + oneLine(msg)
	}
	var arg MalType
	switch f[1] {
	case "nil":
		arg = nil
	case "int":
		arg = 7
	case "str":
		arg = "s"
	case "right":
		arg = right
	default:
		return "bad-case"
	}
	args := []MalType{arg}
	if f[0] == "ctx-int-bytes" {
		args = []MalType{1, arg}
	}
	form := List{Val: append([]MalType{Symbol{Val: "probe"}}, func() []MalType {
		q := make([]MalType, len(args))
		for i, a := range args {
			q[i] = List{Val: []MalType{Symbol{Val: "quote"}, a}}
		}
		return q
	}()...)}
	res := safeRunInline(func() string {
		v, err := lisp.EVAL(context.Background(), form, ns)
		if err != nil {
			if _, isLisp := err.(interface{ ErrorValue() MalType }); !isLisp {
				return "err not-a-lisp-error"
			}
			return "err"
		}
		return "ok " + render(v)
	})
	obs := fmt.Sprintf("entered=%d %s", p.entered, res)
	shouldEnter := f[1] == "right"
	switch {
	case strings.HasPrefix(res, "PANIC"):
		return obs + "\t!a Go panic escaped from a call of a bound function"
	case shouldEnter && (p.entered != 1 || !strings.HasPrefix(res, "ok")):
		return obs + "\t!an argument assignable to the parameter did not reach the function (" + payload + ")"
	case !shouldEnter && p.entered != 0:
		return obs + "\t!the function was entered with an argument that is not assignable to its parameter (" + payload + "): lisp nil is the zero interface value, not a typed nil"
	case !shouldEnter && res != "err":
		return obs + "\t!a call with a non-assignable argument did not give the caller a lisp error (" + payload + ")"
	}
	return obs
}

func (e *callNilEngine) classify(payload, obs string) string { return strings.SplitN(obs, "\t", 2)[0] }
